#!/bin/bash
# usage: seedtest.sh <patch.diff> <prop> [<prop>...]   -- applies a seeded change to /repo, runs the checks, reverts.
set -u
P="$1"; shift
cd /repo && git diff --quiet || { echo "repo dirty"; exit 2; }
git -C /repo apply "$P" || { echo "patch does not apply"; exit 2; }
# evidence files record the unchanged tree: keep them aside while the changed tree is checked
rm -rf /verif/.evidence.keep && cp -r /verif/evidence /verif/.evidence.keep
for prop in "$@"; do
  out=$(cd /verif && ./check $prop ${SEEDTIER:+--tier $SEEDTIER} 2>&1)
  echo "== $prop exit=$? : $(echo "$out" | tail -1 | cut -c1-150)"
  echo "$out" | grep "^VIOLATION" | sed 's/replay=[^ ]* //' | cut -c1-230 | head -8
done
git -C /repo apply -R "$P"
rm -rf /verif/evidence && mv /verif/.evidence.keep /verif/evidence
git -C /repo diff --quiet && echo "reverted clean"
