package app

// Replay harness (T2): the real application over an in-memory database. Injected into package app with `go test -overlay`
// together with one replay test. Nothing here is part of the verified text; it only drives the real code.

import (
	"encoding/json"
	"sync"
	"testing"
	"time"

	"github.com/cosmos/cosmos-sdk/simapp"
	sdk "github.com/cosmos/cosmos-sdk/types"
	authtypes "github.com/cosmos/cosmos-sdk/x/auth/types"
	banktypes "github.com/cosmos/cosmos-sdk/x/bank/types"
	stakingtypes "github.com/cosmos/cosmos-sdk/x/staking/types"
	codectypes "github.com/cosmos/cosmos-sdk/codec/types"
	"github.com/cosmos/cosmos-sdk/crypto/keys/ed25519"
	"github.com/cosmos/cosmos-sdk/crypto/keys/secp256k1"
	"github.com/ignite/cli/ignite/pkg/cosmoscmd"
	abci "github.com/tendermint/tendermint/abci/types"
	"github.com/tendermint/tendermint/libs/log"
	tmproto "github.com/tendermint/tendermint/proto/tendermint/types"
	dbm "github.com/tendermint/tm-db"

	didkey "github.com/SaoNetwork/sao-did/key"
	didtypes "github.com/SaoNetwork/sao/x/did/types"
	nodetypes "github.com/SaoNetwork/sao/x/node/types"
	saotypes "github.com/SaoNetwork/sao/x/sao/types"
)

const replayChainID = "sao-replay"

var prefixOnce sync.Once

type replayEnv struct {
	App    *App
	Ctx    sdk.Context
	Addrs  []sdk.AccAddress
	Val    sdk.ValAddress
	Height int64
}

func newReplayEnv(t *testing.T, nAccounts int) *replayEnv {
	prefixOnce.Do(func() { cosmoscmd.SetPrefixes(AccountAddressPrefix) })
	enc := cosmoscmd.MakeEncodingConfig(ModuleBasics)
	a := New(log.NewNopLogger(), dbm.NewMemDB(), nil, true, map[int64]bool{}, t.TempDir(), 0, enc, simapp.EmptyAppOptions{}).(*App)
	gs := NewDefaultGenesisState(enc.Marshaler)

	var addrs []sdk.AccAddress
	var accs []authtypes.GenesisAccount
	var bals []banktypes.Balance
	for i := 0; i < nAccounts; i++ {
		pk := secp256k1.GenPrivKeyFromSecret([]byte{byte(i + 1), 0x5a})
		ad := sdk.AccAddress(pk.PubKey().Address())
		addrs = append(addrs, ad)
		accs = append(accs, authtypes.NewBaseAccount(ad, nil, uint64(i), 0))
		bals = append(bals, banktypes.Balance{Address: ad.String(), Coins: sdk.NewCoins(sdk.NewInt64Coin("sao", 1_000_000_000_000))})
	}
	// one bonded validator, delegated to by account 0
	valPk := ed25519.GenPrivKeyFromSecret([]byte("replay-validator")).PubKey()
	pkAny, err := codectypes.NewAnyWithValue(valPk)
	if err != nil {
		t.Fatal(err)
	}
	valAddr := sdk.ValAddress(addrs[0])
	bonded := sdk.NewInt(1_000_000)
	val := stakingtypes.Validator{OperatorAddress: valAddr.String(), ConsensusPubkey: pkAny, Jailed: false, Status: stakingtypes.Bonded,
		Tokens: bonded, DelegatorShares: sdk.NewDecFromInt(bonded), Description: stakingtypes.Description{Moniker: "v"},
		UnbondingTime: time.Unix(0, 0).UTC(), Commission: stakingtypes.NewCommission(sdk.ZeroDec(), sdk.ZeroDec(), sdk.ZeroDec()), MinSelfDelegation: sdk.ZeroInt()}
	del := stakingtypes.NewDelegation(addrs[0], valAddr, sdk.NewDecFromInt(bonded))
	sp := stakingtypes.DefaultParams()
	sp.BondDenom = "sao"
	gs[stakingtypes.ModuleName] = enc.Marshaler.MustMarshalJSON(stakingtypes.NewGenesisState(sp, []stakingtypes.Validator{val}, []stakingtypes.Delegation{del}))
	bals = append(bals, banktypes.Balance{Address: authtypes.NewModuleAddress(stakingtypes.BondedPoolName).String(), Coins: sdk.NewCoins(sdk.NewCoin("sao", bonded))})
	gs[authtypes.ModuleName] = enc.Marshaler.MustMarshalJSON(authtypes.NewGenesisState(authtypes.DefaultParams(), accs))
	total := sdk.NewCoins()
	for _, b := range bals {
		total = total.Add(b.Coins...)
	}
	gs[banktypes.ModuleName] = enc.Marshaler.MustMarshalJSON(banktypes.NewGenesisState(banktypes.DefaultGenesisState().Params, bals, total, nil))
	// node module: single denomination "sao"
	ng := nodetypes.DefaultGenesis()
	ng.Pool.TotalPledged = sdk.NewInt64Coin("sao", 0)
	ng.Pool.AccPledgePerByte = sdk.NewInt64DecCoin("sao", 0)
	ng.Params.Baseline = sdk.NewInt64Coin("sao", 500_000_000)
	ng.Params.BlockReward = sdk.NewInt64Coin("sao", 1000)
	gs[nodetypes.ModuleName] = enc.Marshaler.MustMarshalJSON(ng)

	state, err := json.Marshal(gs)
	if err != nil {
		t.Fatal(err)
	}
	a.InitChain(abci.RequestInitChain{ChainId: replayChainID, ConsensusParams: simapp.DefaultConsensusParams, AppStateBytes: state, Time: time.Unix(1700000000, 0).UTC()})
	env := &replayEnv{App: a, Addrs: addrs, Val: valAddr}
	env.begin(1)
	return env
}

func (e *replayEnv) header(h int64) tmproto.Header {
	return tmproto.Header{ChainID: replayChainID, Height: h, Time: time.Unix(1700000000+h*6, 0).UTC(), AppHash: []byte{byte(h), 1, 2, 3, 4, 5, 6, 7}}
}

// begin starts block h and gives a deliver-state context for it.
func (e *replayEnv) begin(h int64) {
	e.Height = h
	e.App.BeginBlock(abci.RequestBeginBlock{Header: e.header(h)})
	e.Ctx = e.App.BaseApp.NewContext(false, e.header(h)).WithBlockHeight(h)
}

// end runs the end blockers of block h and commits.
func (e *replayEnv) end() {
	e.App.EndBlock(abci.RequestEndBlock{Height: e.Height})
	e.App.Commit()
}

func (e *replayEnv) advanceTo(h int64) {
	for e.Height < h {
		e.end()
		e.begin(e.Height + 1)
	}
}

func replayPanics(f func()) (msg interface{}) {
	defer func() { msg = recover() }()
	f()
	return nil
}

// replayDid returns the did:key DID of the secp256k1 key derived from secret.
func replayDid(t *testing.T, secret string) string {
	p, err := didkey.NewSecp256k1Provider([]byte(secret))
	if err != nil {
		t.Fatal(err)
	}
	jws, err := p.CreateJWS([]byte("x"))
	if err != nil {
		t.Fatal(err)
	}
	kid, err := jws.Signatures[0].GetKid()
	if err != nil {
		t.Fatal(err)
	}
	for i := 0; i < len(kid); i++ {
		if kid[i] == '#' {
			return kid[:i]
		}
	}
	return kid
}

// signProposal signs the protobuf bytes of p (exactly what verifySignature checks) with the did:key of secret.
func signProposal(t *testing.T, secret string, p interface{ Marshal() ([]byte, error) }) saotypes.JwsSignature {
	prov, err := didkey.NewSecp256k1Provider([]byte(secret))
	if err != nil {
		t.Fatal(err)
	}
	bz, err := p.Marshal()
	if err != nil {
		t.Fatal(err)
	}
	jws, err := prov.CreateJWS(bz)
	if err != nil {
		t.Fatal(err)
	}
	return saotypes.JwsSignature{Protected: jws.Signatures[0].Protected, Signature: jws.Signatures[0].Signature}
}

// bindAccount makes account a bound to did (Did table) and the payment address of did.
func (e *replayEnv) bindAccount(a sdk.AccAddress, did string) {
	accountId := "cosmos:" + replayChainID + ":" + a.String()
	e.App.DidKeeper.SetDid(e.Ctx, didtypes.Did{AccountId: accountId, Did: did})
	e.App.DidKeeper.SetPaymentAddress(e.Ctx, didtypes.PaymentAddress{Did: did, Address: a.String()})
}

const replayCid = "QmYwAPJzv5CZsnA625s3Xf2nemtYgPpHdWEz79ojWnPbdG"
