#!/bin/bash
# usage: run_replay.sh <repo-relative package dir> <test file> <-run regexp>
# Injects the test file into the package with `go test -overlay` (hiding the package's own, non-compiling _test.go files)
# and runs it against the real code in /repo (or in $GOVC_REPO: the tree a run with -repo is looking at). Exit 0 iff the replay
# test passes (= the failing behaviour is reproduced).
set -u
export GOFLAGS=-mod=mod GOPROXY=off GOSUMDB=off GOTOOLCHAIN=local
PKG="$1"; FILE="$2"; RUN="$3"
REPO="${GOVC_REPO:-/repo}"
TMP=$(mktemp -d)
trap 'rm -rf "$TMP"' EXIT
python3 - "$PKG" "$FILE" "$TMP/ov.json" "$REPO" <<'PY'
import json,sys,os,glob
pkg,f,out,repo=sys.argv[1:5]
rep={}
for t in glob.glob(os.path.join(repo,pkg,'*_test.go')):
    rep[t]=""
rep[os.path.join(repo,pkg,'zz_replay_'+os.path.basename(f))]=os.path.abspath(f)
if pkg=='app':
    rep[os.path.join(repo,pkg,'zz_replay_harness_test.go')]='/verif/replay/harness/harness_test.go' 
json.dump({"Replace":rep},open(out,'w'))
PY
cd "$REPO" && ulimit -v 8000000 && go test -overlay "$TMP/ov.json" -vet=off -count=1 -timeout 120s -run "$RUN" -v "./$PKG" 2>&1
