package app

// Replay for obligation saok.Keeper.HandleTimeoutOrder#ensures@C12.timeout.progress.ret5 (C12): when the re-examination of an
// unfinished order falls into the last timeout interval of the order's lifetime (height + timeout >= created + duration, e.g.
// timeout == duration), the handler returns without resolving the waiting shard, without cancelling/refunding and without
// scheduling another check: the order stays DataReady for ever and the payer stays charged.
// Model: has(Order, id), Status == DataReady, one Waiting shard, H + Timeout >= CreatedAt + Duration.
// Passes iff the real handler leaves the order unresolved and unscheduled.

import (
	"testing"

	ordertypes "github.com/SaoNetwork/sao/x/order/types"
	sdk "github.com/cosmos/cosmos-sdk/types"
)

func TestReplayTimeoutEndOfLifeUnresolved(t *testing.T) {
	e := newReplayEnv(t, 4)
	e.advanceTo(5)
	owner := replayDid(t, "model-owner")
	e.bindAccount(e.Addrs[1], owner)
	amount := sdk.NewInt64Coin("sao", 36)
	if err := e.App.BankKeeper.SendCoinsFromAccountToModule(e.Ctx, e.Addrs[1], ordertypes.ModuleName, sdk.NewCoins(amount)); err != nil {
		t.Fatal(err)
	}
	order := ordertypes.Order{Creator: e.Addrs[2].String(), Owner: owner, Provider: e.Addrs[2].String(), Amount: amount, Status: ordertypes.OrderDataReady, DataId: "11111111-2222-3333-4444-555555555555",
		CreatedAt: 5, Timeout: 40, Duration: 40, Replica: 1, Size_: 10, UnitPrice: sdk.NewDecCoinFromDec("sao", sdk.NewDecWithPrec(1, 6))}
	id := e.App.OrderKeeper.AppendOrder(e.Ctx, order)
	order.Id = id
	sid := e.App.OrderKeeper.AppendShard(e.Ctx, ordertypes.Shard{OrderId: id, Status: ordertypes.ShardWaiting, Sp: e.Addrs[3].String(), Size_: 10, Pledge: sdk.NewInt64Coin("sao", 0)})
	order.Shards = []uint64{sid}
	e.App.OrderKeeper.SetOrder(e.Ctx, order)
	e.App.SaoKeeper.SetTimeoutOrderBlock(e.Ctx, order, 45)
	payerBefore := e.App.BankKeeper.GetBalance(e.Ctx, e.Addrs[1], "sao")
	// run the chain through the scheduled check and far beyond ten timeout intervals
	e.advanceTo(500)
	after, found := e.App.OrderKeeper.GetOrder(e.Ctx, id)
	if !found {
		t.Fatalf("REPLAY-NOT-REPRODUCED: order was cancelled")
	}
	shard, sfound := e.App.OrderKeeper.GetShard(e.Ctx, sid)
	if !sfound || shard.Status != ordertypes.ShardWaiting {
		t.Fatalf("REPLAY-NOT-REPRODUCED: shard resolved (found=%v status=%d)", sfound, shard.Status)
	}
	if len(after.Shards) != 1 {
		t.Fatalf("REPLAY-NOT-REPRODUCED: shard re-assigned: %v", after.Shards)
	}
	for h := uint64(500); h < 1000; h++ {
		if to, ok := e.App.SaoKeeper.GetTimeoutOrder(e.Ctx, h); ok && len(to.OrderList) > 0 {
			t.Fatalf("REPLAY-NOT-REPRODUCED: order still scheduled at %d", h)
		}
	}
	payerAfter := e.App.BankKeeper.GetBalance(e.Ctx, e.Addrs[1], "sao")
	if !payerAfter.Equal(payerBefore) {
		t.Fatalf("REPLAY-NOT-REPRODUCED: payer balance changed %s -> %s", payerBefore, payerAfter)
	}
	t.Logf("REPLAY-CONFIRMED: at height %d order %d (created 5, timeout 40, duration 40) is still status %d with waiting shard %d, no further check is scheduled, %s stay charged", e.Height, id, after.Status, sid, amount)
}
