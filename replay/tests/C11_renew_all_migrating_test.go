package app

// Replay for obligation saok.msgServer.Renew#pre@Keeper.ExtendMetaDuration.2 (C11): Renew accepts an order whose shards are all
// being migrated, skips every one of them in the renewal loop and then calls ExtendMetaDuration(dataId, 0). ExtendMetaDuration
// computes 0 - CreatedAt in uint64: the model's Duration wraps, its deletion is rescheduled at height 0 (the past) and the
// model is never deleted, although nothing was renewed (the owner is charged for the renewal all the same).
// Model: has(Metadata, d), owner-signed renewal, all shards of the latest order in status ShardMigrating.
// Passes iff the real handler leaves the model with a wrapped duration and an expiry entry at height 0.

import (
	"testing"

	modeltypes "github.com/SaoNetwork/sao/x/model/types"
	ordertypes "github.com/SaoNetwork/sao/x/order/types"
	saokeeper "github.com/SaoNetwork/sao/x/sao/keeper"
	saotypes "github.com/SaoNetwork/sao/x/sao/types"
	sdk "github.com/cosmos/cosmos-sdk/types"
)

func TestReplayRenewAllShardsMigrating(t *testing.T) {
	e := newReplayEnv(t, 4)
	e.advanceTo(10)
	owner := replayDid(t, "model-owner")
	e.bindAccount(e.Addrs[1], owner)
	gateway := e.Addrs[2].String()
	dataId := "11111111-2222-3333-4444-555555555555"
	order := ordertypes.Order{Creator: gateway, Owner: owner, Provider: gateway, Status: ordertypes.OrderCompleted, DataId: dataId, Commit: dataId, CreatedAt: 5, Duration: 100000, Replica: 1, Size_: 10,
		Amount: sdk.NewInt64Coin("sao", 1), UnitPrice: sdk.NewDecCoinFromDec("sao", sdk.NewDecWithPrec(1, 6)), Operation: 1}
	oid := e.App.OrderKeeper.AppendOrder(e.Ctx, order)
	order.Id = oid
	sid := e.App.OrderKeeper.AppendShard(e.Ctx, ordertypes.Shard{OrderId: oid, Status: ordertypes.ShardMigrating, Sp: e.Addrs[3].String(), Size_: 10, CreatedAt: 6, Duration: 100000, Pledge: sdk.NewInt64Coin("sao", 1)})
	order.Shards = []uint64{sid}
	e.App.OrderKeeper.SetOrder(e.Ctx, order)
	e.App.ModelKeeper.SetMetadata(e.Ctx, modeltypes.Metadata{DataId: dataId, Owner: owner, Alias: "m", OrderId: oid, Commit: dataId, Commits: []string{dataId + "\x1a5"}, Orders: []uint64{oid},
		Status: modeltypes.MetaComplete, CreatedAt: 5, Duration: 100001})
	e.App.ModelKeeper.SetExpiredData(e.Ctx, modeltypes.ExpiredData{Height: 100006, Data: []string{dataId}})
	prop := saotypes.RenewProposal{Owner: owner, Duration: 3600, Timeout: 10, Data: []string{dataId}}
	msg := &saotypes.MsgRenew{Creator: gateway, Provider: gateway, Proposal: prop, JwsSignature: signProposal(t, "model-owner", &prop)}
	resp, err := saokeeper.NewMsgServerImpl(e.App.SaoKeeper).Renew(sdk.WrapSDKContext(e.Ctx), msg)
	if err != nil {
		t.Fatalf("REPLAY-NOT-REPRODUCED: renew rejected: %v", err)
	}
	after, _ := e.App.ModelKeeper.GetMetadata(e.Ctx, dataId)
	zero, found0 := e.App.ModelKeeper.GetExpiredData(e.Ctx, 0)
	if after.CreatedAt+after.Duration >= after.CreatedAt || !found0 {
		t.Fatalf("REPLAY-NOT-REPRODUCED: result %v; model duration %d, entry at height 0: %v", resp.Result, after.Duration, found0)
	}
	t.Logf("REPLAY-CONFIRMED: renew result %q; model created at %d now has duration %d (created+duration wraps to %d) and is scheduled for deletion at height 0: %v", resp.Result[0].V, after.CreatedAt, after.Duration, after.CreatedAt+after.Duration, zero.Data)
}
