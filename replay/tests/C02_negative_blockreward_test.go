package app

// Replay for obligation node.BeginBlocker#safe@NewCoin__negative_amount_or_invalid_denom (C02): parameter validation accepts any
// sdk.Coin as block reward (validateBlockReward only asserts the type). With a negative amount BeginBlocker builds the reward
// coin with sdk.NewCoin, which panics: every block after the first pledge halts the chain.
// Passes iff the parameter set validates and the real BeginBlock panics.

import (
	"fmt"
	"testing"

	sdk "github.com/cosmos/cosmos-sdk/types"
)

func TestReplayNegativeBlockRewardHaltsChain(t *testing.T) {
	e := newReplayEnv(t, 2)
	p := e.App.NodeKeeper.GetParams(e.Ctx)
	p.BlockReward = sdk.Coin{Denom: "sao", Amount: sdk.NewInt(-1000)}
	if err := p.Validate(); err != nil {
		t.Fatalf("REPLAY-NOT-REPRODUCED: parameter validation rejects a negative block reward: %v", err)
	}
	e.App.NodeKeeper.SetParams(e.Ctx, p)
	pool, _ := e.App.NodeKeeper.GetPool(e.Ctx)
	pool.TotalPledged = sdk.NewInt64Coin("sao", 600000000)
	pool.TotalStorage = 600000000 * 1000000
	e.App.NodeKeeper.SetPool(e.Ctx, pool)
	e.end()
	m := replayPanics(func() { e.begin(e.Height + 1) })
	if m == nil {
		t.Fatalf("REPLAY-NOT-REPRODUCED: BeginBlock ran normally with block reward %s", p.BlockReward)
	}
	t.Logf("REPLAY-CONFIRMED: parameters with block reward -1000sao validate; BeginBlock of height %d panicked: %s", e.Height+1, fmt.Sprint(m))
}
