package app

// Replay for obligation saok.msgServer.Store#ensures@C16.store.base (C16): an update is accepted although the base version it
// names is not the model's latest committed version - the code tests strings.Contains(meta.Commit, base), so the empty base
// ("|<new>") and any proper substring of the latest commit pass.
// Model: old(has(Metadata, DataId)), baseCommit(CommitId) != old(Metadata[DataId].Commit), err == nil.
// Passes iff the real handler accepts both requests.

import (
	"testing"

	modeltypes "github.com/SaoNetwork/sao/x/model/types"
	nodetypes "github.com/SaoNetwork/sao/x/node/types"
	ordertypes "github.com/SaoNetwork/sao/x/order/types"
	saokeeper "github.com/SaoNetwork/sao/x/sao/keeper"
	saotypes "github.com/SaoNetwork/sao/x/sao/types"
	sdk "github.com/cosmos/cosmos-sdk/types"
)

func storeWithBase(t *testing.T, base string) error {
	e := newReplayEnv(t, 4)
	gateway := e.Addrs[2].String()
	ownerDid := replayDid(t, "model-owner")
	dataId := "11111111-2222-3333-4444-555555555555"
	latest := "aaaaaaaa-bbbb-cccc-dddd-eeeeeeeeeeee"
	e.App.NodeKeeper.SetNode(e.Ctx, nodetypes.Node{Creator: gateway})
	last := e.App.OrderKeeper.AppendOrder(e.Ctx, ordertypes.Order{Creator: e.Addrs[1].String(), Owner: ownerDid, Provider: gateway, Status: ordertypes.OrderCompleted, DataId: dataId, Commit: latest,
		Amount: sdk.NewInt64Coin("sao", 0)})
	e.App.ModelKeeper.SetMetadata(e.Ctx, modeltypes.Metadata{DataId: dataId, Owner: ownerDid, Alias: "m", OrderId: last, Commit: latest,
		Commits: []string{dataId + "\x1a1", latest + "\x1a2"}, Orders: []uint64{last, last}, Status: modeltypes.MetaComplete, Duration: 100000, CreatedAt: 1})
	e.bindAccount(e.Addrs[1], ownerDid)
	prop := saotypes.Proposal{Owner: ownerDid, Provider: gateway, GroupId: "g", Duration: 3600, Replica: 1, Timeout: 10, Alias: "m", DataId: dataId,
		CommitId: base + "|99999999-8888-7777-6666-555555555555", Cid: replayCid, Size_: 10, Operation: 1}
	msg := &saotypes.MsgStore{Creator: e.Addrs[1].String(), Proposal: prop, JwsSignature: signProposal(t, "model-owner", &prop), Provider: gateway}
	_, err := saokeeper.NewMsgServerImpl(e.App.SaoKeeper).Store(sdk.WrapSDKContext(e.Ctx), msg)
	return err
}

func TestReplayStoreAcceptsWrongBase(t *testing.T) {
	if err := storeWithBase(t, "aaaaaaaa-bbbb-cccc-dddd-eeeeeeeeeeee"); err != nil {
		t.Fatalf("REPLAY-SETUP: an update naming the latest version as its base must be accepted: %v", err)
	}
	if err := storeWithBase(t, "ffffffff-0000-0000-0000-000000000000"); err == nil {
		t.Fatalf("REPLAY-SETUP: an unrelated base is expected to be rejected")
	}
	for _, base := range []string{"", "bbbb"} {
		if err := storeWithBase(t, base); err != nil {
			t.Fatalf("REPLAY-NOT-REPRODUCED: base %q rejected: %v", base, err)
		}
	}
	t.Logf("REPLAY-CONFIRMED: updates naming the bases \"\" and \"bbbb\" were accepted on a model whose latest version is aaaaaaaa-bbbb-cccc-dddd-eeeeeeeeeeee")
}
