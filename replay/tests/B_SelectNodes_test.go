package keeper

// Bounded stand-in for the assumed contract of SelectNodes (heapify/buildHeap swap elements in place through sub-slices
// sharing one backing array: outside the verified subset). Runs the real function on EVERY input of up to 6 nodes over
// 3 liveness heights x 2 reputations (distinct creators), for every size 0..len+1, and checks the contract:
// len(res) == min(size, len), every result element is an input element, no input element is used twice.
// Bound: <= 6 nodes, 6 attribute combinations per node. Not a proof.

import (
	"fmt"
	"testing"

	"github.com/SaoNetwork/sao/x/node/types"
)

func TestBoundedSelectNodes(t *testing.T) {
	cases := 0
	attrs := [][2]int{{1, 1}, {1, 2}, {2, 1}, {2, 2}, {3, 1}, {3, 2}}
	var rec func(cur []types.Node)
	check := func(in []types.Node) {
		for size := 0; size <= len(in)+1; size++ {
			cases++
			work := append([]types.Node{}, in...)
			res := SelectNodes(size, work)
			want := size
			if len(in) < want {
				want = len(in)
			}
			if len(res) != want {
				t.Fatalf("BOUNDED-CHECK-FAILED: len %d want %d (input %v size %d)", len(res), want, in, size)
			}
			orig := map[string]types.Node{}
			for _, n := range in {
				orig[n.Creator] = n
			}
			seen := map[string]bool{}
			for _, n := range res {
				o, ok := orig[n.Creator]
				if !ok || o.LastAliveHeight != n.LastAliveHeight || o.Reputation != n.Reputation {
					t.Fatalf("BOUNDED-CHECK-FAILED: result element %v is not an input element", n)
				}
				if seen[n.Creator] {
					t.Fatalf("BOUNDED-CHECK-FAILED: input element %s used twice", n.Creator)
				}
				seen[n.Creator] = true
			}
		}
	}
	rec = func(cur []types.Node) {
		check(cur)
		if len(cur) == 6 {
			return
		}
		for _, a := range attrs {
			n := types.Node{Creator: fmt.Sprintf("n%d", len(cur)), LastAliveHeight: int64(a[0]), Reputation: float32(a[1])}
			rec(append(append([]types.Node{}, cur...), n))
		}
	}
	rec(nil)
	t.Logf("BOUNDED-CHECK-OK: %d (input, size) cases up to 6 nodes satisfy the assumed contract of SelectNodes", cases)
}
