package app

// Replay for obligation node.GenesisState.Validate#ensures@C18.validate.pool+C02.validate.pool (C18, C02): a node genesis state
// without a pool ("pool": null) passes Validate(), and InitGenesis then dereferences the nil pointer: the chain cannot start
// from a genesis file that validated.
// Passes iff Validate() returns nil and the real InitGenesis panics.

import (
	"fmt"
	"testing"

	nodemodule "github.com/SaoNetwork/sao/x/node"
	nodetypes "github.com/SaoNetwork/sao/x/node/types"
)

func TestReplayNodeGenesisNilPool(t *testing.T) {
	e := newReplayEnv(t, 1)
	gs := nodetypes.GenesisState{Params: nodetypes.DefaultParams(), Pool: nil}
	if err := gs.Validate(); err != nil {
		t.Fatalf("REPLAY-NOT-REPRODUCED: Validate rejects a genesis state without a pool: %v", err)
	}
	p := replayPanics(func() { nodemodule.InitGenesis(e.Ctx, e.App.NodeKeeper, gs) })
	if p == nil {
		t.Fatalf("REPLAY-NOT-REPRODUCED: InitGenesis accepted a nil pool")
	}
	t.Logf("REPLAY-CONFIRMED: Validate() == nil for a genesis state without a pool; InitGenesis panics: %s", fmt.Sprint(p))
}
