package app

// Replay for obligation modelk.Keeper.RollbackMeta#ensures@C05.rollback.unschedule (C05, C11): when a model that never had a
// committed version is rolled back (its creating order was cancelled or timed out), its ExpiredData entry survives.
// A model re-created under the same data id is then deleted at the stale height although it was paid for longer.
// Passes iff the stale entry exists after RollbackMeta and deletes the re-created model early.

import (
	"testing"

	model "github.com/SaoNetwork/sao/x/model"
	modeltypes "github.com/SaoNetwork/sao/x/model/types"
	ordertypes "github.com/SaoNetwork/sao/x/order/types"
)

func TestReplayRollbackLeavesStaleExpiry(t *testing.T) {
	e := newReplayEnv(t, 2)
	dataId := "aaaaaaaa-bbbb-cccc-dddd-eeeeeeeeeeee"
	meta := modeltypes.Metadata{DataId: dataId, Owner: "did:key:zOwner", Alias: "a", GroupId: "g", CreatedAt: 1, Duration: 10, Status: modeltypes.MetaNew}
	order := ordertypes.Order{Id: 1, CreatedAt: 1, Duration: 10, DataId: dataId}
	if err := e.App.ModelKeeper.NewMeta(e.Ctx, order, meta); err != nil {
		t.Fatal(err)
	}
	// the creating order is cancelled before any version was committed
	e.App.ModelKeeper.RollbackMeta(e.Ctx, dataId)
	if _, found := e.App.ModelKeeper.GetMetadata(e.Ctx, dataId); found {
		t.Fatalf("REPLAY-NOT-REPRODUCED: metadata still present")
	}
	ed, found := e.App.ModelKeeper.GetExpiredData(e.Ctx, 11)
	stale := false
	if found {
		for _, d := range ed.Data {
			if d == dataId {
				stale = true
			}
		}
	}
	if !stale {
		t.Fatalf("REPLAY-NOT-REPRODUCED: no stale ExpiredData entry at height 11")
	}
	// same data id re-created for a much longer term
	meta2 := meta
	meta2.CreatedAt, meta2.Duration = 2, 1000
	order2 := ordertypes.Order{Id: 2, CreatedAt: 2, Duration: 1000, DataId: dataId}
	if err := e.App.ModelKeeper.NewMeta(e.Ctx, order2, meta2); err != nil {
		t.Fatal(err)
	}
	model.EndBlocker(e.Ctx.WithBlockHeight(11), e.App.ModelKeeper)
	if _, found := e.App.ModelKeeper.GetMetadata(e.Ctx, dataId); found {
		t.Fatalf("REPLAY-NOT-REPRODUCED: re-created model survived height 11")
	}
	t.Logf("REPLAY-CONFIRMED: stale ExpiredData[11] entry deleted the re-created model (paid until height 1002) at height 11")
}
