package app

// Bounded stand-in for the part of sao.Complete (completion of a MIGRATED shard) that rewrites the shard lists of the orders
// naming the old provider's shard: the loops collect pointers to order records and write through them, which the value model
// of slices/pointers in the verifier cannot follow with invariants (DESIGN.md 10.6). Clause decided here, for property C13:
//
//   [C13.complete.migrate.listing] after a successful completion of a migrated shard, and from then on at every block boundary,
//   every shard an order lists exists, and every existing shard is listed by the order it names and by every renewal order
//   queued on it.
//
// BOUND: all histories  store -> complete(A) -> renew x b -> migrate(A) -> renew x d -> complete(B)  with b, d in {0,1,2}
// (9 histories; B completes under the first order listing its shard that accepts the completion), one replica; a second
// clause (.late) runs the same histories with B completing only after the first paid period has ended; run on the real application through the real message handlers (real did:key signatures) and the
// real sao/model end blockers until every paid period has ended. Labelled bounded; never counted as proved.

import (
	"fmt"
	"strings"
	"testing"

	modelmodule "github.com/SaoNetwork/sao/x/model"
	nodekeeper "github.com/SaoNetwork/sao/x/node/keeper"
	nodetypes "github.com/SaoNetwork/sao/x/node/types"
	ordertypes "github.com/SaoNetwork/sao/x/order/types"
	saomodule "github.com/SaoNetwork/sao/x/sao"
	saokeeper "github.com/SaoNetwork/sao/x/sao/keeper"
	saotypes "github.com/SaoNetwork/sao/x/sao/types"
	sdk "github.com/cosmos/cosmos-sdk/types"
)

const (
	bmlDataId = "00000000-0000-0000-0000-0000000000c3"
	bmlSize   = uint64(1000000)
	bmlSecret = "bounded-migration-owner"
)

type bmlEnv struct {
	*replayEnv
	t        *testing.T
	owner    string
	spA, spB sdk.AccAddress
	h        int64
	when     []string // violations of the when-condition of [C02.expire.nopanic], collected before every end blocker run
}

// run the sao and model end blockers of every height below target, then stand at target
func (e *bmlEnv) to(target int64) {
	for e.h < target {
		c := e.Ctx.WithBlockHeight(e.h)
		e.checkWhen(c)
		saomodule.EndBlocker(c, e.App.SaoKeeper)
		modelmodule.EndBlocker(c, e.App.ModelKeeper)
		e.h++
	}
	e.Ctx = e.Ctx.WithBlockHeight(e.h)
}

// checkWhen evaluates, for every shard the end blocker is about to hand to HandleExpiredShard, the condition under which
// that function is proved not to panic (clause [C02.expire.nopanic] of its contract in /repo/x/sao/keeper/zz_verif_contracts.go)
func (e *bmlEnv) checkWhen(c sdk.Context) {
	es, found := e.App.SaoKeeper.GetExpiredShard(c, uint64(c.BlockHeight()))
	if !found {
		return
	}
	say := func(id uint64, f string, a ...interface{}) {
		e.when = append(e.when, fmt.Sprintf("height %d, scheduled shard %d: ", c.BlockHeight(), id)+fmt.Sprintf(f, a...))
	}
	for _, id := range es.ShardList {
		sh, ok := e.App.OrderKeeper.GetShard(c, id)
		if !ok {
			continue
		}
		o, ok := e.App.OrderKeeper.GetOrder(c, sh.OrderId)
		if !ok {
			continue
		}
		if _, err := sdk.AccAddressFromBech32(sh.Sp); err != nil {
			say(id, "provider %q is not an address", sh.Sp)
		}
		if o.Amount.Amount.IsNil() || o.Amount.Amount.IsNegative() || sdk.ValidateDenom(o.Amount.Denom) != nil {
			say(id, "order %d amount %v", o.Id, o.Amount)
		}
		if d, ok := e.App.NodeKeeper.GetPledgeDebt(c, sh.Sp); ok {
			if sdk.ValidateDenom(d.Debt.Denom) != nil || d.Debt.Denom != sh.Pledge.Denom {
				say(id, "pledge debt %v against shard pledge %v", d.Debt, sh.Pledge)
			}
		}
		if pl, ok := e.App.NodeKeeper.GetPledge(c, sh.Sp); ok {
			if pl.TotalShardPledged.Denom != sh.Pledge.Denom || pl.TotalShardPledged.Amount.LT(sh.Pledge.Amount) {
				say(id, "provider's TotalShardPledged %v does not cover the shard's pledge %v", pl.TotalShardPledged, sh.Pledge)
			}
		}
		if len(sh.RenewInfos) > 0 {
			ro, ok := e.App.OrderKeeper.GetOrder(c, sh.RenewInfos[0].OrderId)
			if !ok || ro.Amount.Amount.IsNil() || ro.Amount.Amount.IsNegative() || sdk.ValidateDenom(ro.Amount.Denom) != nil {
				say(id, "queued renewal order %d missing or with amount %v", sh.RenewInfos[0].OrderId, ro.Amount)
			}
		}
	}
}

func (e *bmlEnv) registerSp(sp sdk.AccAddress) {
	srv := nodekeeper.NewMsgServerImpl(e.App.NodeKeeper)
	c := sdk.WrapSDKContext(e.Ctx)
	if _, err := srv.Create(c, &nodetypes.MsgCreate{Creator: sp.String()}); err != nil {
		e.t.Fatalf("setup: node create: %v", err)
	}
	st := nodetypes.NODE_STATUS_ONLINE | nodetypes.NODE_STATUS_SERVE_STORAGE | nodetypes.NODE_STATUS_ACCEPT_ORDER
	if _, err := srv.Reset(c, &nodetypes.MsgReset{Creator: sp.String(), Status: st}); err != nil {
		e.t.Fatalf("setup: node reset: %v", err)
	}
	if _, err := srv.AddVstorage(c, &nodetypes.MsgAddVstorage{Creator: sp.String(), Size_: 100 * bmlSize}); err != nil {
		e.t.Fatalf("setup: add vstorage: %v", err)
	}
}

func (e *bmlEnv) store() uint64 {
	p := saotypes.Proposal{Owner: e.owner, Provider: e.spA.String(), GroupId: "g", Duration: 3600, Replica: 1, Timeout: 100, Alias: "f",
		DataId: bmlDataId, CommitId: bmlDataId, Cid: replayCid, Size_: bmlSize, Operation: 1}
	resp, err := saokeeper.NewMsgServerImpl(e.App.SaoKeeper).Store(sdk.WrapSDKContext(e.Ctx),
		&saotypes.MsgStore{Creator: e.spA.String(), Provider: e.spA.String(), Proposal: p, JwsSignature: signProposal(e.t, bmlSecret, &p)})
	if err != nil {
		e.t.Fatalf("setup: store: %v", err)
	}
	return resp.OrderId
}

func (e *bmlEnv) complete(sp sdk.AccAddress, orderId uint64) error {
	_, err := saokeeper.NewMsgServerImpl(e.App.SaoKeeper).Complete(sdk.WrapSDKContext(e.Ctx),
		&saotypes.MsgComplete{Creator: sp.String(), Provider: sp.String(), OrderId: orderId, Cid: replayCid, Size_: bmlSize})
	return err
}

func (e *bmlEnv) renew() {
	p := saotypes.RenewProposal{Owner: e.owner, Duration: 3600, Timeout: 100, Data: []string{bmlDataId}}
	resp, err := saokeeper.NewMsgServerImpl(e.App.SaoKeeper).Renew(sdk.WrapSDKContext(e.Ctx),
		&saotypes.MsgRenew{Creator: e.spA.String(), Provider: e.spA.String(), Proposal: p, JwsSignature: signProposal(e.t, bmlSecret, &p)})
	if err != nil || len(resp.Result) != 1 || !strings.HasPrefix(resp.Result[0].V, "SUCCESS") {
		e.t.Fatalf("setup: renew: %v %v", err, resp)
	}
}

func (e *bmlEnv) migrate() {
	resp, err := saokeeper.NewMsgServerImpl(e.App.SaoKeeper).Migrate(sdk.WrapSDKContext(e.Ctx),
		&saotypes.MsgMigrate{Creator: e.spA.String(), Provider: e.spA.String(), Data: []string{bmlDataId}})
	if err != nil || len(resp.Result) != 1 || !strings.Contains(resp.Result[0].V, e.spB.String()) {
		e.t.Fatalf("setup: migrate: %v %v", err, resp)
	}
}

// the clause: returns a description of every broken reference
func (e *bmlEnv) listing() []string {
	var bad []string
	exists := map[uint64]bool{}
	shards := e.App.OrderKeeper.GetAllShard(e.Ctx)
	for _, s := range shards {
		exists[s.Id] = true
	}
	for _, o := range e.App.OrderKeeper.GetAllOrder(e.Ctx) {
		for _, id := range o.Shards {
			if !exists[id] {
				bad = append(bad, fmt.Sprintf("order %d lists shard %d, which does not exist (order.Shards=%v)", o.Id, id, o.Shards))
			}
		}
	}
	for _, s := range shards {
		ids := []uint64{s.OrderId}
		for _, ri := range s.RenewInfos {
			ids = append(ids, ri.OrderId)
		}
		for _, oid := range ids {
			o, found := e.App.OrderKeeper.GetOrder(e.Ctx, oid)
			if !found {
				bad = append(bad, fmt.Sprintf("shard %d names order %d, which does not exist", s.Id, oid))
				continue
			}
			n := 0
			for _, id := range o.Shards {
				if id == s.Id {
					n++
				}
			}
			if n != 1 {
				bad = append(bad, fmt.Sprintf("shard %d (provider %s) names order %d, which lists it %d times (order.Shards=%v)", s.Id, s.Sp, oid, n, o.Shards))
			}
		}
	}
	return bad
}

var bmlWhen []string // when-condition violations of the histories run so far

func bmlHistory(t *testing.T, before, during int, late bool) []string {
	re := newReplayEnv(t, 4)
	e := &bmlEnv{replayEnv: re, t: t, spA: re.Addrs[2], spB: re.Addrs[3], h: re.Height}
	e.owner = replayDid(t, bmlSecret)
	e.bindAccount(e.Addrs[1], e.owner)
	defer func() {
		for _, w := range e.when {
			bmlWhen = append(bmlWhen, fmt.Sprintf("renewals before/during migration %d/%d (late=%v), %s", before, during, late, w))
		}
	}()
	e.to(10)
	e.registerSp(e.spA)
	orderId := e.store()
	e.to(11)
	if err := e.complete(e.spA, orderId); err != nil {
		t.Fatalf("setup: first completion: %v", err)
	}
	e.to(100)
	e.registerSp(e.spB)
	for i := 0; i < before; i++ {
		e.to(e.h + 20)
		e.renew()
	}
	e.to(e.h + 20)
	e.migrate()
	for i := 0; i < during; i++ {
		e.to(e.h + 20)
		e.renew()
	}
	e.to(e.h + 20)
	if late {
		e.to(11 + 3600 + 50)
	}
	var ms *ordertypes.Shard
	for _, s := range e.App.OrderKeeper.GetAllShard(e.Ctx) {
		s := s
		if s.Status == ordertypes.ShardMigrating {
			ms = &s
		}
	}
	if ms == nil {
		t.Fatalf("setup: no migrating shard")
	}
	// the order under which the migrating shard is listed is the one the new provider completes
	var listedIn uint64
	for _, o := range e.App.OrderKeeper.GetAllOrder(e.Ctx) {
		for _, id := range o.Shards {
			if id == ms.Id && (listedIn == 0 || o.Id == ms.OrderId) {
				listedIn = o.Id
			}
		}
	}
	done := false
	for _, o := range e.App.OrderKeeper.GetAllOrder(e.Ctx) {
		lists := false
		for _, id := range o.Shards {
			if id == ms.Id {
				lists = true
			}
		}
		if !lists || done {
			continue
		}
		cc, write := e.Ctx.CacheContext()
		saved := e.Ctx
		e.Ctx = cc
		var err error
		p := replayPanics(func() { err = e.complete(e.spB, o.Id) })
		e.Ctx = saved
		if p == nil && err == nil {
			write()
			done = true
			t.Logf("history %d/%d late=%v: completed under order %d", before, during, late, o.Id)
		} else {
			t.Logf("history %d/%d late=%v: completion under order %d rejected: %v %v", before, during, late, o.Id, p, err)
		}
	}
	_ = listedIn
	if !done {
		if !late {
			t.Fatalf("setup: no completion of the migrated shard was accepted (%d/%d)", before, during)
		}
		return nil
	}
	var bad []string
	for _, b := range e.listing() {
		bad = append(bad, fmt.Sprintf("renewals before/during migration %d/%d, right after the completion at height %d: %s", before, during, e.h, b))
	}
	// every block boundary until all paid periods are over
	end := int64(11 + 3600*(1+before+during) + 10)
	for e.h < end && len(bad) == 0 {
		e.to(e.h + 1)
		if e.h%3600 == 12 || e.h%3600 == 13 {
			for _, b := range e.listing() {
				bad = append(bad, fmt.Sprintf("renewals before/during migration %d/%d, at height %d: %s", before, during, e.h, b))
			}
		}
	}
	return bad
}

func TestBoundedCompleteMigrationListing(t *testing.T) {
	bmlAll(t, false, "C13.complete.migrate.listing")
}

// the same histories with the new provider completing only after the first paid period has ended (the old shard has been
// rotated into its renewal order by then); histories in which no completion is accepted any more are skipped
func TestBoundedCompleteMigrationListingLate(t *testing.T) {
	bmlAll(t, true, "C13.complete.migrate.listing.late")
}

func bmlAll(t *testing.T, late bool, clause string) {
	n, total := 0, 0
	var all []string
	for before := 0; before <= 2; before++ {
		for during := 0; during <= 2; during++ {
			total++
			bad := bmlHistory(t, before, during, late)
			if len(bad) == 0 {
				n++
			}
			all = append(all, bad...)
		}
	}
	t.Logf("BOUNDED-CHECK %s: %d of %d histories keep orders and shards consistent", clause, n, total)
	for _, b := range all {
		t.Errorf("C13 violated (every shard an order lists exists / every shard is listed by the orders it names): %s", b)
	}
}

// Bounded stand-in for the hypothesis of [C02.expire.nopanic] (property C02): HandleExpiredShard is proved not to panic when the
// scheduled shard satisfies a condition (valid provider address, the provider's TotalShardPledged covers the shard's pledge,
// consistent denominations, the queued renewal order exists). The end blocker that calls it is not under contract (the condition
// follows from a sum invariant the contract language cannot state), so the condition is evaluated here on the real state right
// before every end blocker run of the 18 histories above (prompt and late completion). Runs each history to the end of all paid
// periods: a panic of the end blocker would also fail the test.
func TestBoundedExpireWhenCondition(t *testing.T) {
	bmlWhen = nil
	n := 0
	for _, late := range []bool{false, true} {
		for before := 0; before <= 2; before++ {
			for during := 0; during <= 2; during++ {
				bmlHistory(t, before, during, late)
				n++
			}
		}
	}
	t.Logf("BOUNDED-CHECK C02.expire.when: %d histories, %d violations of the no-panic condition of HandleExpiredShard", n, len(bmlWhen))
	for _, w := range bmlWhen {
		t.Errorf("C02 violated (hypothesis of the no-panic clause of HandleExpiredShard): %s", w)
	}
}
