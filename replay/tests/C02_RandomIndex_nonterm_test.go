package keeper

// Replay for obligation nodek.Keeper.RandomIndex#term@L1 (C02, C15): no variant exists for the draw loop. Once the seed is
// exhausted every further draw is residue 0, which is a duplicate after the first time, so the loop never exits.
// Model: seed = 0, total = 3, count = 2. Passes iff the real function does not return within the watchdog time.

import (
	"math/big"
	"testing"
	"time"
)

func TestReplayRandomIndexDoesNotTerminate(t *testing.T) {
	done := make(chan []int, 1)
	go func() { done <- Keeper{}.RandomIndex(big.NewInt(0), 3, 2) }()
	select {
	case r := <-done:
		t.Fatalf("REPLAY-NOT-REPRODUCED: RandomIndex returned %v", r)
	case <-time.After(3 * time.Second):
		t.Logf("REPLAY-CONFIRMED: RandomIndex(seed=0, total=3, count=2) still running after 3s")
	}
}
