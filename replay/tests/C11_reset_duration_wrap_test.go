package app

// Replay for obligation modelk.Keeper.ResetMetaDuration#ensures@C11.reset.nowrap (C11): when none of the model's orders has a
// completed shard (the state in the middle of every force-push: old shards already removed, new shard not yet stored)
// the new lifetime is computed as 0 - CreatedAt in uint64. The duration wraps, the model is rescheduled for deletion at
// height 0, which never comes: the model outlives every shard.
// Passes iff Duration wrapped and the only schedule entry is at height 0.

import (
	"testing"

	modeltypes "github.com/SaoNetwork/sao/x/model/types"
	ordertypes "github.com/SaoNetwork/sao/x/order/types"
)

func TestReplayResetMetaDurationWraps(t *testing.T) {
	e := newReplayEnv(t, 1)
	dataId := "aaaaaaaa-bbbb-cccc-dddd-eeeeeeeeeeee"
	oid := e.App.OrderKeeper.AppendOrder(e.Ctx, ordertypes.Order{DataId: dataId, Status: ordertypes.OrderDataReady})
	sid := e.App.OrderKeeper.AppendShard(e.Ctx, ordertypes.Shard{OrderId: oid, Status: ordertypes.ShardWaiting, Sp: "sp"})
	o, _ := e.App.OrderKeeper.GetOrder(e.Ctx, oid)
	o.Shards = []uint64{sid}
	e.App.OrderKeeper.SetOrder(e.Ctx, o)
	meta := modeltypes.Metadata{DataId: dataId, Owner: "did:key:zOwner", CreatedAt: 5, Duration: 10, Orders: []uint64{oid}}
	e.App.ModelKeeper.SetMetadata(e.Ctx, meta)
	e.App.ModelKeeper.SetExpiredData(e.Ctx, modeltypes.ExpiredData{Height: 15, Data: []string{dataId}})
	e.App.ModelKeeper.ResetMetaDuration(e.Ctx, &meta)
	if meta.CreatedAt+meta.Duration != 0 || meta.Duration < 1<<63 {
		t.Fatalf("REPLAY-NOT-REPRODUCED: duration %d did not wrap", meta.Duration)
	}
	ed, found := e.App.ModelKeeper.GetExpiredData(e.Ctx, 0)
	if !found || len(ed.Data) != 1 || ed.Data[0] != dataId {
		t.Fatalf("REPLAY-NOT-REPRODUCED: model not rescheduled at height 0: %v %v", found, ed)
	}
	if _, still := e.App.ModelKeeper.GetExpiredData(e.Ctx, 15); still {
		t.Fatalf("REPLAY-NOT-REPRODUCED: old schedule entry still present")
	}
	t.Logf("REPLAY-CONFIRMED: Duration wrapped to %d (CreatedAt+Duration == 0 mod 2^64); deletion scheduled at height 0 only", meta.Duration)
}
