package app

// Replay for obligation saok.msgServer.Renew#assert@SetPledge.C07.renew.topup+C14.renew.topup (C07, C14, C02): Renew raises a
// shard's collateral (shard.Pledge) and takes the top-up from the provider, but books it on Pledge.TotalStoragePledged (the
// capacity pledge) and Pool.TotalPledged instead of Pledge.TotalShardPledged. When the renewed period ends, ShardRelease
// subtracts the raised shard.Pledge from TotalShardPledged: the coin goes negative and the sao EndBlocker panics - a chain halt.
// Model: renewal whose collateral exceeds the shard's current collateral (newPledge > shard.Pledge).
// Passes iff after Renew TotalShardPledged is unchanged while shard.Pledge was raised, and the EndBlocker of the block in
// which the renewed period ends panics.

import (
	"fmt"
	"testing"

	modeltypes "github.com/SaoNetwork/sao/x/model/types"
	nodetypes "github.com/SaoNetwork/sao/x/node/types"
	ordertypes "github.com/SaoNetwork/sao/x/order/types"
	saokeeper "github.com/SaoNetwork/sao/x/sao/keeper"
	saotypes "github.com/SaoNetwork/sao/x/sao/types"
	sdk "github.com/cosmos/cosmos-sdk/types"
)

func TestReplayRenewTopUpHaltsChain(t *testing.T) {
	e := newReplayEnv(t, 4)
	e.advanceTo(6)
	owner := replayDid(t, "model-owner")
	e.bindAccount(e.Addrs[1], owner)
	gateway, sp := e.Addrs[2].String(), e.Addrs[3]
	dataId := "11111111-2222-3333-4444-555555555555"
	price := sdk.NewDecCoinFromDec("sao", sdk.NewDecWithPrec(1, 6))
	order := ordertypes.Order{Creator: gateway, Owner: owner, Provider: gateway, Status: ordertypes.OrderCompleted, DataId: dataId, Commit: dataId, CreatedAt: 5, Duration: 10, Replica: 1, Size_: 100000,
		Amount: sdk.NewInt64Coin("sao", 1), UnitPrice: price, Operation: 1}
	oid := e.App.OrderKeeper.AppendOrder(e.Ctx, order)
	order.Id = oid
	shard := ordertypes.Shard{OrderId: oid, Status: ordertypes.ShardCompleted, Sp: sp.String(), Size_: 100000, CreatedAt: 6, Duration: 10, Pledge: sdk.NewInt64Coin("sao", 1)}
	sid := e.App.OrderKeeper.AppendShard(e.Ctx, shard)
	shard.Id = sid
	order.Shards = []uint64{sid}
	e.App.OrderKeeper.SetOrder(e.Ctx, order)
	e.App.SaoKeeper.SetExpiredShardBlock(e.Ctx, sid, 16)
	// provider state as AddVstorage + ShardPledge leave it: capacity pledge 1000sao for 10^9 bytes, 1sao shard collateral
	if err := e.App.BankKeeper.SendCoinsFromAccountToModule(e.Ctx, sp, nodetypes.ModuleName, sdk.NewCoins(sdk.NewInt64Coin("sao", 1001))); err != nil {
		t.Fatal(err)
	}
	e.App.NodeKeeper.SetPledge(e.Ctx, nodetypes.Pledge{Creator: sp.String(), TotalStoragePledged: sdk.NewInt64Coin("sao", 1000), TotalShardPledged: sdk.NewInt64Coin("sao", 1),
		Reward: sdk.NewInt64DecCoin("sao", 0), RewardDebt: sdk.NewInt64DecCoin("sao", 0), TotalStorage: 1000000000, UsedStorage: 100000})
	pool, _ := e.App.NodeKeeper.GetPool(e.Ctx)
	pool.TotalPledged = sdk.NewInt64Coin("sao", 1000)
	pool.TotalStorage = 1000000000
	e.App.NodeKeeper.SetPool(e.Ctx, pool)
	e.App.MarketKeeper.WorkerAppend(e.Ctx, &order, &shard)
	if err := e.App.BankKeeper.SendCoinsFromAccountToModule(e.Ctx, e.Addrs[1], "market", sdk.NewCoins(sdk.NewInt64Coin("sao", 1))); err != nil {
		t.Fatal(err)
	}
	e.App.ModelKeeper.SetMetadata(e.Ctx, modeltypes.Metadata{DataId: dataId, Owner: owner, Alias: "m", OrderId: oid, Commit: dataId, Commits: []string{dataId + "\x1a5"}, Orders: []uint64{oid},
		Status: modeltypes.MetaComplete, CreatedAt: 5, Duration: 11})
	e.App.ModelKeeper.SetExpiredData(e.Ctx, modeltypes.ExpiredData{Height: 16, Data: []string{dataId}})

	prop := saotypes.RenewProposal{Owner: owner, Duration: 3600, Timeout: 10, Data: []string{dataId}}
	msg := &saotypes.MsgRenew{Creator: gateway, Provider: gateway, Proposal: prop, JwsSignature: signProposal(t, "model-owner", &prop)}
	resp, err := saokeeper.NewMsgServerImpl(e.App.SaoKeeper).Renew(sdk.WrapSDKContext(e.Ctx), msg)
	if err != nil || len(resp.Result) != 1 || len(resp.Result[0].V) < 7 || resp.Result[0].V[:7] != "SUCCESS" {
		t.Fatalf("REPLAY-SETUP: renew failed: %v %v", err, resp)
	}
	after, _ := e.App.OrderKeeper.GetShard(e.Ctx, sid)
	pl, _ := e.App.NodeKeeper.GetPledge(e.Ctx, sp.String())
	if !after.Pledge.Amount.GT(sdk.NewInt(1)) {
		t.Fatalf("REPLAY-SETUP: no top-up: shard pledge %s", after.Pledge)
	}
	if pl.TotalShardPledged.Amount.Equal(after.Pledge.Amount) {
		t.Fatalf("REPLAY-NOT-REPRODUCED: top-up booked on TotalShardPledged: %s", pl.TotalShardPledged)
	}
	t.Logf("after Renew: shard.Pledge=%s TotalShardPledged=%s TotalStoragePledged=%s", after.Pledge, pl.TotalShardPledged, pl.TotalStoragePledged)
	// run the chain: first expiry (height 16) rotates the shard into the renewed period, the end of that period releases it
	var halted interface{}
	haltHeight := int64(0)
	for e.Height < 3700 && halted == nil {
		h := e.Height
		halted = replayPanics(func() { e.end() })
		if halted != nil {
			haltHeight = h
			break
		}
		e.begin(h + 1)
	}
	if halted == nil {
		t.Fatalf("REPLAY-NOT-REPRODUCED: chain ran to height %d without a panic", e.Height)
	}
	t.Logf("REPLAY-CONFIRMED: EndBlock of height %d panicked: %s", haltHeight, fmt.Sprint(halted))
}
