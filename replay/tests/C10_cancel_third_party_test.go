package app

// Replay for obligation saok.msgServer.Cancel#ensures@C10.cancel.actor (C10): a node that lists the victim's creator account
// in its own TxAddresses cancels the victim's pending order, although it is not the order's gateway.
// Model: msg.Creator == msg.Provider == attacker, order.Creator in Node[attacker].TxAddresses, msg.Provider != order.Provider.
// Passes iff the real handler accepts the cancellation.

import (
	"testing"

	didtypes "github.com/SaoNetwork/sao/x/did/types"
	nodetypes "github.com/SaoNetwork/sao/x/node/types"
	ordertypes "github.com/SaoNetwork/sao/x/order/types"
	saokeeper "github.com/SaoNetwork/sao/x/sao/keeper"
	saotypes "github.com/SaoNetwork/sao/x/sao/types"
	sdk "github.com/cosmos/cosmos-sdk/types"
)

func TestReplayCancelByThirdParty(t *testing.T) {
	e := newReplayEnv(t, 4)
	victim, gateway, attacker := e.Addrs[1].String(), e.Addrs[2].String(), e.Addrs[3].String()
	owner := "did:key:zVictimOwner"
	amount := sdk.NewInt64Coin("sao", 10)
	if err := e.App.BankKeeper.SendCoinsFromAccountToModule(e.Ctx, e.Addrs[1], ordertypes.ModuleName, sdk.NewCoins(amount)); err != nil {
		t.Fatal(err)
	}
	e.App.DidKeeper.SetPaymentAddress(e.Ctx, didtypes.PaymentAddress{Did: owner, Address: victim})
	id := e.App.OrderKeeper.AppendOrder(e.Ctx, ordertypes.Order{Creator: victim, Owner: owner, Provider: gateway, Amount: amount, Status: ordertypes.OrderDataReady, DataId: "aaaaaaaa-bbbb-cccc-dddd-eeeeeeeeeeee"})
	e.App.NodeKeeper.SetNode(e.Ctx, nodetypes.Node{Creator: attacker, TxAddresses: []string{victim}})
	srv := saokeeper.NewMsgServerImpl(e.App.SaoKeeper)
	_, err := srv.Cancel(sdk.WrapSDKContext(e.Ctx), &saotypes.MsgCancel{Creator: attacker, Provider: attacker, OrderId: id})
	if err != nil {
		t.Fatalf("REPLAY-NOT-REPRODUCED: third-party cancel rejected: %v", err)
	}
	if _, found := e.App.OrderKeeper.GetOrder(e.Ctx, id); found {
		t.Fatalf("REPLAY-NOT-REPRODUCED: order still present")
	}
	t.Logf("REPLAY-CONFIRMED: node %s (not the order's gateway %s) cancelled order %d created by %s", attacker, gateway, id, victim)
}
