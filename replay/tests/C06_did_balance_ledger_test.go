package app

// Replay for obligation didk.Keeper.SendCoinsFromModuleToDidBalances#ensures@C06.did.ledger (C06): a second credit to an
// existing DID balance moves coins into the did module account but leaves the recorded balance unchanged
// (the result of Coin.Add is discarded). Passes iff ledger < coins received.

import (
	"testing"

	ordertypes "github.com/SaoNetwork/sao/x/order/types"
	sdk "github.com/cosmos/cosmos-sdk/types"
)

func TestReplayDidBalanceLedgerUnderRecords(t *testing.T) {
	e := newReplayEnv(t, 2)
	coin := sdk.NewInt64Coin("sao", 5)
	if err := e.App.BankKeeper.SendCoinsFromAccountToModule(e.Ctx, e.Addrs[1], ordertypes.ModuleName, sdk.NewCoins(sdk.NewInt64Coin("sao", 10))); err != nil {
		t.Fatal(err)
	}
	did := "did:key:zReplay"
	if m := replayPanics(func() {
		for i := 0; i < 2; i++ {
			if err := e.App.DidKeeper.SendCoinsFromModuleToDidBalances(e.Ctx, ordertypes.ModuleName, did, coin); err != nil {
				t.Fatalf("REPLAY-NOT-REPRODUCED: credit %d failed: %v", i, err)
			}
		}
	}); m != nil {
		t.Fatalf("REPLAY-NOT-REPRODUCED: panicked (module account missing?): %v", m)
	}
	b, found := e.App.DidKeeper.GetDidBalances(e.Ctx, did)
	if !found {
		t.Fatalf("REPLAY-NOT-REPRODUCED: no balance record")
	}
	if b.Balance.Amount.Int64() == 10 {
		t.Fatalf("REPLAY-NOT-REPRODUCED: ledger records both credits (%s)", b.Balance)
	}
	t.Logf("REPLAY-CONFIRMED: two credits of 5sao, ledger records %s", b.Balance)
}
