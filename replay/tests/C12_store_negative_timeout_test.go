package app

// Replay for obligation saok.msgServer.Store#ensures@C12.store.timeout (C12): Store only rejects Timeout == 0; a negative int32
// timeout is converted with uint64(), so the stored order has a timeout of 2^64-5 blocks and creation height + timeout wraps:
// the first re-examination is scheduled in the past and the order is never re-examined.
// Model: msg.Proposal.Timeout = -5, err == nil, H + Order[id].Timeout > MaxUint64.
// Passes iff the real handler accepts the request and stores the wrapped timeout.

import (
	"testing"

	nodetypes "github.com/SaoNetwork/sao/x/node/types"
	saokeeper "github.com/SaoNetwork/sao/x/sao/keeper"
	saotypes "github.com/SaoNetwork/sao/x/sao/types"
	sdk "github.com/cosmos/cosmos-sdk/types"
)

func TestReplayStoreNegativeTimeout(t *testing.T) {
	e := newReplayEnv(t, 4)
	e.advanceTo(20)
	gateway := e.Addrs[2].String()
	ownerDid := replayDid(t, "model-owner")
	dataId := "11111111-2222-3333-4444-555555555555"
	e.App.NodeKeeper.SetNode(e.Ctx, nodetypes.Node{Creator: gateway})
	e.bindAccount(e.Addrs[1], ownerDid)
	prop := saotypes.Proposal{Owner: ownerDid, Provider: gateway, GroupId: "g", Duration: 3600, Replica: 1, Timeout: -5, Alias: "m", DataId: dataId,
		CommitId: dataId, Cid: replayCid, Size_: 10, Operation: 1}
	msg := &saotypes.MsgStore{Creator: e.Addrs[1].String(), Proposal: prop, JwsSignature: signProposal(t, "model-owner", &prop), Provider: gateway}
	resp, err := saokeeper.NewMsgServerImpl(e.App.SaoKeeper).Store(sdk.WrapSDKContext(e.Ctx), msg)
	if err != nil {
		t.Fatalf("REPLAY-NOT-REPRODUCED: negative timeout rejected: %v", err)
	}
	order, found := e.App.OrderKeeper.GetOrder(e.Ctx, resp.OrderId)
	if !found {
		t.Fatalf("REPLAY-NOT-REPRODUCED: order not stored")
	}
	first := order.CreatedAt + order.Timeout
	if first > order.CreatedAt {
		t.Fatalf("REPLAY-NOT-REPRODUCED: first check at %d is after creation at %d", first, order.CreatedAt)
	}
	t.Logf("REPLAY-CONFIRMED: order %d created at height %d has timeout %d; creation + timeout wraps to height %d, which is in the past", order.Id, order.CreatedAt, order.Timeout, first)
}
