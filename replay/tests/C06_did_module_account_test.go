package app

// Replay for obligation didk.Keeper.SendCoinsFromModuleToDidBalances#cover@return.1 (C06): the success return is
// unreachable because the recipient module account "did" is not registered in maccPerms: the bank keeper panics.
// Passes iff the real keeper panics when a refund is credited to a DID balance.

import (
	"testing"

	ordertypes "github.com/SaoNetwork/sao/x/order/types"
	sdk "github.com/cosmos/cosmos-sdk/types"
)

func TestReplayDidBalanceRefundPanics(t *testing.T) {
	e := newReplayEnv(t, 2)
	// fund the order escrow so that only the missing module account can make the transfer fail
	coin := sdk.NewInt64Coin("sao", 5)
	if err := e.App.BankKeeper.SendCoinsFromAccountToModule(e.Ctx, e.Addrs[1], ordertypes.ModuleName, sdk.NewCoins(coin)); err != nil {
		t.Fatal(err)
	}
	m := replayPanics(func() {
		err := e.App.DidKeeper.SendCoinsFromModuleToDidBalances(e.Ctx, ordertypes.ModuleName, "did:key:zReplay", coin)
		t.Logf("returned err=%v", err)
	})
	if m == nil {
		t.Fatalf("REPLAY-NOT-REPRODUCED: refund to DID balance returned normally")
	}
	t.Logf("REPLAY-CONFIRMED: SendCoinsFromModuleToDidBalances panicked: %v", m)
}
