package node

// Replay for obligation node.GetRewardAge#safe@Int_Quo__division_by_zero (and #safe@Coin_Sub__negative_coin_amount).
// Input from the solver's model: pool.TotalReward = 400000000000000sao (division by zero), 400000000000001sao (negative).
// Injected into package x/node with `go test -overlay`; passes iff the real function panics.

import (
	"testing"

	"github.com/SaoNetwork/sao/x/node/types"
	sdk "github.com/cosmos/cosmos-sdk/types"
)

func replayPanics(f func()) (msg interface{}) {
	defer func() { msg = recover() }()
	f()
	return nil
}

func TestReplayGetRewardAgeDivZero(t *testing.T) {
	pool := types.Pool{TotalReward: sdk.NewInt64Coin("sao", 400000000000000)}
	if m := replayPanics(func() { GetRewardAge(pool) }); m == nil {
		t.Fatalf("REPLAY-NOT-REPRODUCED: GetRewardAge returned normally")
	} else {
		t.Logf("REPLAY-CONFIRMED: GetRewardAge panicked: %v", m)
	}
}

func TestReplayGetRewardAgeNegative(t *testing.T) {
	pool := types.Pool{TotalReward: sdk.NewInt64Coin("sao", 400000000000001)}
	if m := replayPanics(func() { GetRewardAge(pool) }); m == nil {
		t.Fatalf("REPLAY-NOT-REPRODUCED: GetRewardAge returned normally")
	} else {
		t.Logf("REPLAY-CONFIRMED: GetRewardAge panicked: %v", m)
	}
}
