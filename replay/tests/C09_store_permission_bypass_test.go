package app

// Replay for obligation saok.msgServer.Store#ensures@C09.store.auth (C09): a stranger DID, with a valid signature of its own over
// its own proposal, rewrites Status/Commit/OrderId of somebody else's model, because the permission branch of Store is skipped
// whenever the commit field contains the data id (which is the normal shape "<dataId>|<new>" of a first update).
// Model: old(has(Metadata, DataId)), signer != Owner, signer not in ReadwriteDids, strcontains(CommitId, DataId).
// Passes iff the real handler accepts the request and the victim's model changed.

import (
	"testing"

	modeltypes "github.com/SaoNetwork/sao/x/model/types"
	nodetypes "github.com/SaoNetwork/sao/x/node/types"
	ordertypes "github.com/SaoNetwork/sao/x/order/types"
	saokeeper "github.com/SaoNetwork/sao/x/sao/keeper"
	saotypes "github.com/SaoNetwork/sao/x/sao/types"
	sdk "github.com/cosmos/cosmos-sdk/types"
)

func TestReplayStorePermissionBypass(t *testing.T) {
	e := newReplayEnv(t, 4)
	gateway := e.Addrs[2].String()
	victimDid := replayDid(t, "victim-owner")
	strangerDid := replayDid(t, "stranger")
	dataId := "11111111-2222-3333-4444-555555555555"
	e.App.NodeKeeper.SetNode(e.Ctx, nodetypes.Node{Creator: gateway})
	// the victim's model: one committed version (commit == data id, as NewMeta leaves it), last order completed
	last := e.App.OrderKeeper.AppendOrder(e.Ctx, ordertypes.Order{Creator: e.Addrs[1].String(), Owner: victimDid, Provider: gateway, Status: ordertypes.OrderCompleted, DataId: dataId, Commit: dataId,
		Amount: sdk.NewInt64Coin("sao", 0)})
	before := modeltypes.Metadata{DataId: dataId, Owner: victimDid, Alias: "victim", OrderId: last, Commit: dataId, Commits: []string{dataId + "\x1a1"}, Orders: []uint64{last},
		Status: modeltypes.MetaComplete, Duration: 100000, CreatedAt: 1}
	e.App.ModelKeeper.SetMetadata(e.Ctx, before)
	// the stranger: its own did:key, its own account bound to it and paying
	e.bindAccount(e.Addrs[3], strangerDid)
	prop := saotypes.Proposal{Owner: strangerDid, Provider: gateway, GroupId: "g", Duration: 3600, Replica: 1, Timeout: 10, Alias: "victim", DataId: dataId,
		CommitId: dataId + "|99999999-8888-7777-6666-555555555555", Cid: replayCid, Size_: 10, Operation: 1}
	msg := &saotypes.MsgStore{Creator: e.Addrs[3].String(), Proposal: prop, JwsSignature: signProposal(t, "stranger", &prop), Provider: gateway}
	srv := saokeeper.NewMsgServerImpl(e.App.SaoKeeper)
	resp, err := srv.Store(sdk.WrapSDKContext(e.Ctx), msg)
	if err != nil {
		t.Fatalf("REPLAY-NOT-REPRODUCED: Store by a stranger rejected: %v", err)
	}
	after, _ := e.App.ModelKeeper.GetMetadata(e.Ctx, dataId)
	if after.Commit == before.Commit && after.OrderId == before.OrderId && after.Status == before.Status {
		t.Fatalf("REPLAY-NOT-REPRODUCED: model untouched")
	}
	t.Logf("REPLAY-CONFIRMED: %s (not owner %s, no grant) changed model %s: commit %q -> %q, order %d -> %d (resp order %d), status %d -> %d",
		strangerDid, victimDid, dataId, before.Commit, after.Commit, before.OrderId, after.OrderId, resp.OrderId, before.Status, after.Status)
}
