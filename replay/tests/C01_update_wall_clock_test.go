package app

// Replay for obligations det@(x/did/keeper.msgServer).Update#nondet-sources and ...Binding#nondet-sources (C01, C17): the
// freshness test of a DID update/binding proof reads the host's wall clock (time.Now), not the block time. A request whose
// timestamp equals the block time is fresh for every replica executing that block, yet the outcome depends on when the node
// runs it: on this host (clock far from the block's time) it is rejected as out of date.
// Passes iff the handler rejects a block-time-fresh request with ErrOutOfDate.

import (
	"errors"
	"testing"

	didkeeper "github.com/SaoNetwork/sao/x/did/keeper"
	didtypes "github.com/SaoNetwork/sao/x/did/types"
	sdk "github.com/cosmos/cosmos-sdk/types"
)

func TestReplayUpdateUsesWallClock(t *testing.T) {
	e := newReplayEnv(t, 2)
	creator := e.Addrs[1].String()
	did := "did:sid:replay"
	e.App.DidKeeper.SetDid(e.Ctx, didtypes.Did{AccountId: "cosmos:" + e.Ctx.ChainID() + ":" + creator, Did: did})
	srv := didkeeper.NewMsgServerImpl(e.App.DidKeeper)
	blockTime := uint64(e.Ctx.BlockTime().Unix())
	_, err := srv.Update(sdk.WrapSDKContext(e.Ctx), &didtypes.MsgUpdate{Creator: creator, Did: did, Timestamp: blockTime})
	if !errors.Is(err, didtypes.ErrOutOfDate) {
		t.Fatalf("REPLAY-NOT-REPRODUCED: request stamped with the block time was not rejected as out of date (err=%v)", err)
	}
	t.Logf("REPLAY-CONFIRMED: request stamped with block time %d rejected as out of date by the host clock: %v", blockTime, err)
}
