package app

// Replay for obligation gen@node#footprint (C18): the node module writes the stores Fault/faultId/, Fault/value/,
// FishingReward/value/ and NodeRound/value/, but neither ExportGenesis reads nor InitGenesis writes them. An export/import
// round trip silently drops open faults, accrued fishing rewards and the super-node cursor.
// Passes iff the records exist before the export, the export validates, and they are absent after importing it into a fresh app.

import (
	"testing"

	nodemodule "github.com/SaoNetwork/sao/x/node"
	nodetypes "github.com/SaoNetwork/sao/x/node/types"
	sdk "github.com/cosmos/cosmos-sdk/types"
)

func TestReplayNodeGenesisDropsFaultsRewardsCursor(t *testing.T) {
	a := newReplayEnv(t, 3)
	sp, fishman := a.Addrs[1].String(), a.Addrs[2].String()
	fault := &nodetypes.Fault{OrderId: 1, DataId: "d", ShardId: 7, CommitId: "c", Provider: sp, Reporter: fishman, Status: nodetypes.FaultStatusConfirming, Penalty: 3}
	a.App.NodeKeeper.SetFault(a.Ctx, fault)
	rw := sdk.NewDec(42)
	a.App.NodeKeeper.SetFishingReward(a.Ctx, fishman, &rw)
	a.App.NodeKeeper.SetNodeRound(a.Ctx, 2)
	if _, ok := a.App.NodeKeeper.GetFault(a.Ctx, fault.FaultId); !ok {
		t.Fatal("REPLAY-SETUP: fault not stored")
	}
	gs := nodemodule.ExportGenesis(a.Ctx, a.App.NodeKeeper)
	if err := gs.Validate(); err != nil {
		t.Fatalf("REPLAY-SETUP: exported genesis does not validate: %v", err)
	}
	b := newReplayEnv(t, 3)
	nodemodule.InitGenesis(b.Ctx, b.App.NodeKeeper, *gs)
	_, hasFault := b.App.NodeKeeper.GetFault(b.Ctx, fault.FaultId)
	_, hasReward := b.App.NodeKeeper.GetFishingReward(b.Ctx, fishman)
	round, hasRound := b.App.NodeKeeper.GetNodeRound(b.Ctx)
	if hasFault && hasReward && hasRound && round == 2 {
		t.Fatalf("REPLAY-NOT-REPRODUCED: fault, fishing reward and cursor survived the round trip")
	}
	t.Logf("REPLAY-CONFIRMED: after export/import: fault present=%v (was true), fishing reward present=%v (was 42), super-node cursor present=%v value=%d (was 2)", hasFault, hasReward, hasRound, round)
}
