package app

// Replay for obligations det@(x/node/keeper.Hooks).*#globals (C01, C03, C20): the staking hooks communicate through the
// package-level variable sharesBeforeModified. A value written while executing a transaction that is later discarded (failed
// DeliverTx, CheckTx, simulation) survives in process memory and changes the outcome of the next hook: the same committed
// state and the same hook call give a different Node.Role on a process that carries the residue than on a fresh one.
// Passes iff the two executions disagree.

import (
	"testing"

	nodetypes "github.com/SaoNetwork/sao/x/node/types"
	sdk "github.com/cosmos/cosmos-sdk/types"
	stakingtypes "github.com/cosmos/cosmos-sdk/x/staking/types"
)

func TestReplayHookResidueChangesRole(t *testing.T) {
	e := newReplayEnv(t, 3)
	d0, d1, d2 := e.Addrs[0], e.Addrs[1], e.Addrs[2]
	k := e.App.NodeKeeper
	k.SetNode(e.Ctx, nodetypes.Node{Creator: d1.String(), Status: 15, Role: nodetypes.NODE_NORMAL, Reputation: 10000})
	k.SetPledge(e.Ctx, nodetypes.Pledge{Creator: d1.String(), TotalStorage: 20 << 30,
		TotalStoragePledged: sdk.NewInt64Coin("sao", 1), TotalShardPledged: sdk.NewInt64Coin("sao", 0), Reward: sdk.NewInt64DecCoin("sao", 0), RewardDebt: sdk.NewInt64DecCoin("sao", 0)})
	val, found := e.App.StakingKeeper.GetValidator(e.Ctx, e.Val)
	if !found {
		t.Fatal("validator missing")
	}
	// d1 holds 95000 / 1095010 = 8.7% of the validator's shares: below the 10% threshold
	if _, err := e.App.StakingKeeper.Delegate(e.Ctx, d1, sdk.NewInt(95000), stakingtypes.Unbonded, val, true); err != nil {
		t.Fatal(err)
	}
	val, _ = e.App.StakingKeeper.GetValidator(e.Ctx, e.Val)
	if _, err := e.App.StakingKeeper.Delegate(e.Ctx, d2, sdk.NewInt(10), stakingtypes.Unbonded, val, true); err != nil {
		t.Fatal(err)
	}
	hooks := k.Hooks()
	roleAfter := func(ctx sdk.Context) uint32 {
		if err := hooks.AfterDelegationModified(ctx, d2, e.Val); err != nil {
			t.Fatal(err)
		}
		n, _ := k.GetNode(ctx, d1.String())
		return n.Role
	}
	// A: fresh process memory
	ctxA, _ := e.Ctx.CacheContext()
	roleA := roleAfter(ctxA)
	// a transaction of d0 fires the "before" hook and is then discarded (its store branch is never written)
	ctxP, _ := e.Ctx.CacheContext()
	if err := hooks.BeforeDelegationSharesModified(ctxP, d0, e.Val); err != nil {
		t.Fatal(err)
	}
	// B: same committed state, same call, process memory carries the residue
	ctxB, _ := e.Ctx.CacheContext()
	roleB := roleAfter(ctxB)
	if roleA == roleB {
		t.Fatalf("REPLAY-NOT-REPRODUCED: role %d on both executions", roleA)
	}
	t.Logf("REPLAY-CONFIRMED: same state, same hook call: Node.Role = %d on a fresh process, %d with the in-memory residue of a discarded transaction", roleA, roleB)
}
