package app

// Bounded stand-in for the assumed contract of modelk.Keeper.removeDataExpireBlock (in-place removal while ranging, outside the
// verified subset). Drives the real function through the exported ExtendMetaDuration for ALL lists of length <= 6 over the
// alphabet {X, a, b} in which X occurs at most once (the contract's precondition), and checks the contract's postconditions:
// X is gone, every other element keeps its multiplicity and order, an emptied record is removed.
// Bound: list length <= 6, 3 symbols. Not a proof.

import (
	"reflect"
	"testing"

	modeltypes "github.com/SaoNetwork/sao/x/model/types"
)

func TestBoundedRemoveDataExpireBlock(t *testing.T) {
	e := newReplayEnv(t, 1)
	X := "xxxxxxxx-xxxx-xxxx-xxxx-xxxxxxxxxxxx"
	syms := []string{X, "a", "b"}
	cases := 0
	var rec func(cur []string)
	check := func(list []string) {
		nx := 0
		for _, s := range list {
			if s == X {
				nx++
			}
		}
		if nx > 1 {
			return // outside the precondition
		}
		cases++
		ctx, _ := e.Ctx.CacheContext()
		k := e.App.ModelKeeper
		k.SetMetadata(ctx, modeltypes.Metadata{DataId: X, CreatedAt: 1, Duration: 10})
		if len(list) > 0 {
			k.SetExpiredData(ctx, modeltypes.ExpiredData{Height: 11, Data: append([]string{}, list...)})
		}
		k.ExtendMetaDuration(ctx, X, 100)
		var want []string
		for _, s := range list {
			if s != X {
				want = append(want, s)
			}
		}
		got, found := k.GetExpiredData(ctx, 11)
		if len(want) == 0 {
			if found && len(list) > 0 {
				t.Fatalf("BOUNDED-CHECK-FAILED: list %v: emptied record not removed: %v", list, got.Data)
			}
			return
		}
		if !found || !reflect.DeepEqual(got.Data, want) {
			t.Fatalf("BOUNDED-CHECK-FAILED: list %v: got %v want %v", list, got.Data, want)
		}
	}
	rec = func(cur []string) {
		check(cur)
		if len(cur) == 6 {
			return
		}
		for _, s := range syms {
			rec(append(append([]string{}, cur...), s))
		}
	}
	rec(nil)
	t.Logf("BOUNDED-CHECK-OK: %d lists (length <= 6 over 3 symbols, X at most once) satisfy the assumed contract of removeDataExpireBlock", cases)
}

// Outside the precondition the real code misbehaves: two occurrences make the in-place removal index past the shrunk slice.
func TestBoundedRemoveDataExpireBlockDuplicatePanics(t *testing.T) {
	e := newReplayEnv(t, 1)
	X := "xxxxxxxx-xxxx-xxxx-xxxx-xxxxxxxxxxxx"
	ctx, _ := e.Ctx.CacheContext()
	k := e.App.ModelKeeper
	k.SetMetadata(ctx, modeltypes.Metadata{DataId: X, CreatedAt: 1, Duration: 10})
	k.SetExpiredData(ctx, modeltypes.ExpiredData{Height: 11, Data: []string{X, X}})
	m := replayPanics(func() { k.ExtendMetaDuration(ctx, X, 100) })
	t.Logf("duplicate entry: panic=%v", m)
}
