package app

// Replay for obligation nodek.Keeper.GetNextSuperNodes#term@L1 (C02, C15): the unbounded `for {}` scan has no variant. With one
// super node that is not eligible and a stored round-robin cursor of 2 (left behind after super nodes were demoted), the cursor
// is reset to 0 every iteration and neither exit test (i == round-1) is ever met.
// Passes iff the real keeper method does not return within the watchdog time.

import (
	"testing"
	"time"

	nodetypes "github.com/SaoNetwork/sao/x/node/types"
)

func TestReplayGetNextSuperNodesDoesNotTerminate(t *testing.T) {
	e := newReplayEnv(t, 2)
	k := e.App.NodeKeeper
	k.SetNode(e.Ctx, nodetypes.Node{Creator: e.Addrs[1].String(), Role: nodetypes.NODE_SUPER, Status: 15, Reputation: 10000}) // no pledge: not eligible
	k.SetNodeRound(e.Ctx, 2)
	done := make(chan string, 1)
	go func() {
		n := k.GetNextSuperNodes(e.Ctx, 13, 8000, nil, 100)
		done <- n.Creator
	}()
	select {
	case c := <-done:
		t.Fatalf("REPLAY-NOT-REPRODUCED: GetNextSuperNodes returned %q", c)
	case <-time.After(3 * time.Second):
		t.Logf("REPLAY-CONFIRMED: GetNextSuperNodes (1 ineligible super node, cursor 2) still running after 3s")
	}
}
