package app

// Replay for obligation marketk.Keeper.Withdraw#ensures@C04.withdraw.notstarted (C04): a renewal order that is terminated before
// its period starts (its shards still belong to the running order: shard.OrderId < renewal order id) gets no refund - Withdraw
// only refunds for shards whose OrderId equals the order being settled. The renewal price stays in the market escrow for ever:
// income paid plus refunds is less than the amount charged by the whole renewal price.
// Passes iff after Renew + Terminate the payer got back less than it paid for the renewal and the market escrow keeps the rest.

import (
	"testing"

	modeltypes "github.com/SaoNetwork/sao/x/model/types"
	nodetypes "github.com/SaoNetwork/sao/x/node/types"
	ordertypes "github.com/SaoNetwork/sao/x/order/types"
	saokeeper "github.com/SaoNetwork/sao/x/sao/keeper"
	saotypes "github.com/SaoNetwork/sao/x/sao/types"
	sdk "github.com/cosmos/cosmos-sdk/types"
)

func TestReplayRenewalTerminatedBeforeStartNotRefunded(t *testing.T) {
	e := newReplayEnv(t, 4)
	e.advanceTo(6)
	owner := replayDid(t, "model-owner")
	e.bindAccount(e.Addrs[1], owner)
	gateway, sp := e.Addrs[2].String(), e.Addrs[3]
	dataId := "11111111-2222-3333-4444-555555555555"
	price := sdk.NewDecCoinFromDec("sao", sdk.NewDecWithPrec(1, 6))
	// the running order: 100000 bytes x 1 replica x 1000 blocks at 10^-6 = 100sao, already moved to the market escrow
	order := ordertypes.Order{Creator: gateway, Owner: owner, Provider: gateway, Status: ordertypes.OrderCompleted, DataId: dataId, Commit: dataId, CreatedAt: 5, Duration: 1000, Replica: 1, Size_: 100000,
		Amount: sdk.NewInt64Coin("sao", 100), UnitPrice: price, Operation: 1}
	oid := e.App.OrderKeeper.AppendOrder(e.Ctx, order)
	order.Id = oid
	shard := ordertypes.Shard{OrderId: oid, Status: ordertypes.ShardCompleted, Sp: sp.String(), Size_: 100000, CreatedAt: 6, Duration: 1000, Pledge: sdk.NewInt64Coin("sao", 40)}
	sid := e.App.OrderKeeper.AppendShard(e.Ctx, shard)
	shard.Id = sid
	order.Shards = []uint64{sid}
	e.App.OrderKeeper.SetOrder(e.Ctx, order)
	e.App.SaoKeeper.SetExpiredShardBlock(e.Ctx, sid, 1006)
	if err := e.App.BankKeeper.SendCoinsFromAccountToModule(e.Ctx, sp, nodetypes.ModuleName, sdk.NewCoins(sdk.NewInt64Coin("sao", 1040))); err != nil {
		t.Fatal(err)
	}
	e.App.NodeKeeper.SetPledge(e.Ctx, nodetypes.Pledge{Creator: sp.String(), TotalStoragePledged: sdk.NewInt64Coin("sao", 1000), TotalShardPledged: sdk.NewInt64Coin("sao", 40),
		Reward: sdk.NewInt64DecCoin("sao", 0), RewardDebt: sdk.NewInt64DecCoin("sao", 0), TotalStorage: 1000000000, UsedStorage: 100000})
	pool, _ := e.App.NodeKeeper.GetPool(e.Ctx)
	pool.TotalPledged = sdk.NewInt64Coin("sao", 1000)
	pool.TotalStorage = 1000000000
	e.App.NodeKeeper.SetPool(e.Ctx, pool)
	e.App.MarketKeeper.WorkerAppend(e.Ctx, &order, &shard)
	if err := e.App.BankKeeper.SendCoinsFromAccountToModule(e.Ctx, e.Addrs[1], "market", sdk.NewCoins(sdk.NewInt64Coin("sao", 100))); err != nil {
		t.Fatal(err)
	}
	e.App.ModelKeeper.SetMetadata(e.Ctx, modeltypes.Metadata{DataId: dataId, Owner: owner, Alias: "m", OrderId: oid, Commit: dataId, Commits: []string{dataId + "\x1a5"}, Orders: []uint64{oid},
		Status: modeltypes.MetaComplete, CreatedAt: 5, Duration: 1001})
	e.App.ModelKeeper.SetExpiredData(e.Ctx, modeltypes.ExpiredData{Height: 1006, Data: []string{dataId}})
	srv := saokeeper.NewMsgServerImpl(e.App.SaoKeeper)

	before := e.App.BankKeeper.GetBalance(e.Ctx, e.Addrs[1], "sao")
	prop := saotypes.RenewProposal{Owner: owner, Duration: 3600, Timeout: 10, Data: []string{dataId}}
	resp, err := srv.Renew(sdk.WrapSDKContext(e.Ctx), &saotypes.MsgRenew{Creator: gateway, Provider: gateway, Proposal: prop, JwsSignature: signProposal(t, "model-owner", &prop)})
	if err != nil || len(resp.Result) != 1 || resp.Result[0].V[:7] != "SUCCESS" {
		t.Fatalf("REPLAY-SETUP: renew failed: %v %v", err, resp)
	}
	afterRenew := e.App.BankKeeper.GetBalance(e.Ctx, e.Addrs[1], "sao")
	paid := before.Amount.Sub(afterRenew.Amount)
	marketBefore := e.App.BankKeeper.GetBalance(e.Ctx, e.App.AccountKeeper.GetModuleAddress("market"), "sao")

	// two blocks later the owner terminates the model: the renewal period has not started
	e.advanceTo(8)
	tp := saotypes.TerminateProposal{Owner: owner, DataId: dataId}
	_, err = srv.Terminate(sdk.WrapSDKContext(e.Ctx), &saotypes.MsgTerminate{Creator: gateway, Provider: gateway, Proposal: tp, JwsSignature: signProposal(t, "model-owner", &tp)})
	if err != nil {
		t.Fatalf("REPLAY-SETUP: terminate failed: %v", err)
	}
	afterTerm := e.App.BankKeeper.GetBalance(e.Ctx, e.Addrs[1], "sao")
	refund := afterTerm.Amount.Sub(afterRenew.Amount)
	marketAfter := e.App.BankKeeper.GetBalance(e.Ctx, e.App.AccountKeeper.GetModuleAddress("market"), "sao")
	// the running order alone is worth at most 100sao of refund; a correct settlement returns those ~99 plus the whole renewal price
	if refund.GTE(paid) {
		t.Fatalf("REPLAY-NOT-REPRODUCED: paid %s for the renewal, refunded %s", paid, refund)
	}
	if marketAfter.Amount.LT(paid.SubRaw(1)) {
		t.Fatalf("REPLAY-NOT-REPRODUCED: market escrow does not keep the renewal price: %s", marketAfter)
	}
	t.Logf("REPLAY-CONFIRMED: renewal charged %ssao; termination before the renewed period started refunded %ssao in total (running order included); the market escrow went %s -> %s and keeps the renewal price with no order, shard or worker left to claim it", paid, refund, marketBefore, marketAfter)
}
