package app

// Replay for obligation didk.msgServer.Binding#ensures@C17.bind.accepts (C17): Binding verifies that proof.Message carries a
// valid signature by the account's key, but never relates the signed text to proof.Did or proof.Timestamp. A signature over a
// text that names no DID binds the account, and the very same signed text binds the account to a different DID with a
// different timestamp: the proof is neither "that the account accepts that DID" nor fresh (Timestamp is an unsigned field).
// Passes iff the real handler accepts both bindings.

import (
	"encoding/base64"
	"testing"

	didkeeper "github.com/SaoNetwork/sao/x/did/keeper"
	didtypes "github.com/SaoNetwork/sao/x/did/types"
	"github.com/cosmos/cosmos-sdk/crypto/keys/secp256k1"
	sdk "github.com/cosmos/cosmos-sdk/types"
)

func bindWith(t *testing.T, keyName string, tsShift uint64, message, signature string) (string, error) {
	e := newReplayEnv(t, 2)
	addr := e.Addrs[1].String()
	ts := uint64(e.Ctx.BlockTime().Unix()) + tsShift
	keys := []*didtypes.PubKey{{Name: keyName, Value: "value-of-" + keyName}}
	root, err := didkeeper.CalculateDocId(keys, ts)
	if err != nil {
		t.Fatal(err)
	}
	did := "did:sid:" + root
	msg := &didtypes.MsgBinding{Creator: addr, AccountId: "cosmos:" + replayChainID + ":" + addr, RootDocId: root, Keys: keys,
		AccountAuth: &didtypes.AccountAuth{AccountDid: "did:key:zAccount" + keyName, AccountEncryptedSeed: "s", SidEncryptedAccount: "a"},
		Proof:       &didtypes.BindingProof{Version: 1, Message: message, Signature: signature, Account: addr, Did: did, Timestamp: ts}}
	_, err = didkeeper.NewMsgServerImpl(e.App.DidKeeper).Binding(sdk.WrapSDKContext(e.Ctx), msg)
	if err == nil {
		if d, ok := e.App.DidKeeper.GetDid(e.Ctx, msg.AccountId); !ok || d.Did != did {
			t.Fatalf("REPLAY-NOT-REPRODUCED: binding not recorded")
		}
	}
	return did, err
}

func TestReplayBindingProofNotBoundToDid(t *testing.T) {
	pk := secp256k1.GenPrivKeyFromSecret([]byte{2, 0x5a}) // the key of harness account 1
	addr := newReplayEnv(t, 2).Addrs[1].String()
	message := "a text that names no DID and no time"
	sig, err := pk.Sign(didkeeper.GetSignData(addr, message))
	if err != nil {
		t.Fatal(err)
	}
	signature := "tendermint/PubKeySecp256k1." + base64.StdEncoding.EncodeToString(pk.PubKey().Bytes()) + "." + base64.StdEncoding.EncodeToString(sig)
	did1, err1 := bindWith(t, "first", 0, message, signature)
	did2, err2 := bindWith(t, "second", 600, message, signature)
	if err1 != nil || err2 != nil {
		t.Fatalf("REPLAY-NOT-REPRODUCED: binding rejected: %v / %v", err1, err2)
	}
	if did1 == did2 {
		t.Fatalf("REPLAY-SETUP: the two DIDs must differ")
	}
	if _, errBad := bindWith(t, "third", 0, message+"x", signature); errBad == nil {
		t.Fatalf("REPLAY-SETUP: a wrong signature must be rejected")
	}
	t.Logf("REPLAY-CONFIRMED: one signature over %q bound account %s to %s and (replayed, other timestamp) to %s", message, addr, did1, did2)
}
