package app

// Replay for obligation node.BeginBlocker#safe@NewCoin__negative_amount_or_invalid_denom#2 (C02): parameter validation accepts any
// decimal as annual percentage yield (validateAPY only parses it). With a negative APY and a pledged total below the baseline,
// BeginBlocker computes a negative reward and sdk.NewCoin panics: every block after the first pledge halts the chain.
// Model: param APY < 0, 0 < pool.TotalPledged < Baseline, BlockReward > 0 (pledged 400000sao, halving period 12).
// Passes iff the parameter set validates and the real BeginBlock panics.

import (
	"fmt"
	"testing"

	sdk "github.com/cosmos/cosmos-sdk/types"
)

func TestReplayNegativeAPYHaltsChain(t *testing.T) {
	e := newReplayEnv(t, 2)
	p := e.App.NodeKeeper.GetParams(e.Ctx)
	p.AnnualPercentageYield = "-0.5"
	p.HalvingPeriod = 12
	if err := p.Validate(); err != nil {
		t.Fatalf("REPLAY-NOT-REPRODUCED: parameter validation rejects a negative APY: %v", err)
	}
	e.App.NodeKeeper.SetParams(e.Ctx, p)
	pool, _ := e.App.NodeKeeper.GetPool(e.Ctx)
	pool.TotalPledged = sdk.NewInt64Coin("sao", 400000)
	pool.TotalStorage = 400000 * 1000000
	e.App.NodeKeeper.SetPool(e.Ctx, pool)
	e.end()
	m := replayPanics(func() { e.begin(e.Height + 1) })
	if m == nil {
		t.Fatalf("REPLAY-NOT-REPRODUCED: BeginBlock ran normally with APY %s", p.AnnualPercentageYield)
	}
	t.Logf("REPLAY-CONFIRMED: parameters with APY -0.5 validate; BeginBlock of height %d panicked: %s", e.Height+1, fmt.Sprint(m))
}
