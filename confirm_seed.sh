#!/bin/bash
# usage: confirm_seed.sh <worktree> : confirms a seeded change delivered by a sub-agent in <worktree>/SEED
set -u
export GOFLAGS=-mod=mod GOPROXY=off GOSUMDB=off GOTOOLCHAIN=local
WT="$1"; cd "$WT" || exit 2
CMD=$(python3 -c "import json;print(json.load(open('SEED/meta.json'))['demo_cmd'])")
echo "demo_cmd: $CMD"
# ensure change applied
git apply --check -R SEED/patch.diff 2>/dev/null || git apply SEED/patch.diff
echo "--- with change:"; (eval "$CMD") 2>&1 | tail -4 | cut -c1-300
go build ./x/... ./app/... && echo "BUILD-OK"
go test -vet=off -count=1 ./x/... 2>&1 | grep -v "no test files" | grep "^ok\|^FAIL\|^---" | sed -E "s/\(?[0-9.]+s\)?$//" | sort > /tmp/seed_tests_with.txt
git apply -R SEED/patch.diff
echo "--- without change:"; (eval "$CMD") 2>&1 | tail -3 | cut -c1-300
go test -vet=off -count=1 ./x/... 2>&1 | grep -v "no test files" | grep "^ok\|^FAIL\|^---" | sed -E "s/\(?[0-9.]+s\)?$//" | sort > /tmp/seed_tests_without.txt
git apply SEED/patch.diff
diff /tmp/seed_tests_with.txt /tmp/seed_tests_without.txt && echo "TEST-SET-IDENTICAL"
