#!/usr/bin/env python3
"""Mutation sweep (development tool, not a registered check).

Generates simple syntactic mutants (relational/boolean/arithmetic operator flips, deleted store writes) inside functions
that are under contract, one at a time in a scratch copy of /repo, and runs the obligations of THAT function only
(verification is modular: a change inside a function under contract can only break that function's own obligations).
A mutant that compiles and leaves every obligation of its function discharged SURVIVES: either it is equivalent / outside
the 20 properties, or the contract of that function is too thin there. Survivors are written to a log for inspection.

usage: tools_mutation_sweep.py <n-mutants> <seed> [file-regexp]
"""
import os, re, random, subprocess, sys, shutil, json, time, tempfile

REPO = "/repo"
MODS = ["sao", "node", "order", "model", "market", "did"]
ENV = dict(os.environ, GOFLAGS="-mod=mod", GOPROXY="off", GOSUMDB="off", GOTOOLCHAIN="local")

def contracts():
    """(dir, recv, func) of non-trusted, non-accessor contracts."""
    out = set()
    for m in MODS:
        for d in (f"x/{m}/keeper", f"x/{m}"):
            p = os.path.join(REPO, d, "zz_verif_contracts.go")
            if not os.path.exists(p):
                continue
            lines = open(p).read().split("\n")
            for i, l in enumerate(lines):
                mm = re.match(r"//@ func (?:\((\w+)\) )?(\w+)\(", l)
                if not mm:
                    continue
                trusted = False
                for l2 in lines[i + 1:i + 40]:
                    if l2.startswith("//@ func") or l2.startswith("//@ accessor"):
                        break
                    if l2.startswith("//@   trusted"):
                        trusted = True
                if not trusted:
                    out.add((d, mm.group(1) or "", mm.group(2)))
    return out

FUNC_RE = re.compile(r"^func (?:\((\w+) \*?(\w+)\) )?(\w+)\(")
OPS = [(" == ", " != "), (" != ", " == "), (" < ", " <= "), (" <= ", " < "), (" > ", " >= "), (" >= ", " > "),
       (" && ", " || "), (" || ", " && "), (" + ", " - "), (" - ", " + ")]
CALL_DEL = re.compile(r"^\s*k\.(?:\w+\.)?(?:Set|Remove|Append)\w*\(ctx, .*\)\s*$")

def candidates(file_re):
    cts = contracts()
    cands = []
    for (d, recv, fn) in sorted(cts):
        pass
    for m in MODS:
        for d in (f"x/{m}/keeper", f"x/{m}"):
            full = os.path.join(REPO, d)
            for f in sorted(os.listdir(full)):
                if not f.endswith(".go") or f.endswith("_test.go") or f.startswith("zz_") or f.endswith(".pb.go") or "grpc_query" in f or f.startswith("query"):
                    continue
                path = os.path.join(d, f)
                if file_re and not re.search(file_re, path):
                    continue
                lines = open(os.path.join(REPO, path)).read().split("\n")
                cur = None
                for i, l in enumerate(lines):
                    mm = FUNC_RE.match(l)
                    if mm:
                        recv = mm.group(2) or ""
                        cur = (d, recv, mm.group(3)) if (d, recv, mm.group(3)) in cts else None
                        continue
                    if l.startswith("}"):
                        cur = None
                    if cur is None:
                        continue
                    s = l.strip()
                    if s.startswith("//") or "logger." in l or "Logger(" in l or "Errorf(" in l or "Wrapf(" in l or "Wrap(" in l or "Sprintf(" in l or '"' in l and (" + " in l):
                        continue
                    for a, b in OPS:
                        for mo in re.finditer(re.escape(a), l):
                            cands.append((path, i, cur, "op", l[:mo.start()] + b + l[mo.end():], f"{a.strip()} -> {b.strip()}"))
                    if CALL_DEL.match(l):
                        cands.append((path, i, cur, "del", re.sub(r"^(\s*)", r"\1// ", l), "delete " + s[:60]))
    return cands

def main():
    n = int(sys.argv[1]); seed = int(sys.argv[2]); file_re = sys.argv[3] if len(sys.argv) > 3 else ""
    rnd = random.Random(seed)
    cands = candidates(file_re)
    rnd.shuffle(cands)
    scratch = tempfile.mkdtemp(prefix="govc-mut.", dir="/var/tmp")
    subprocess.run(["rsync", "-a", "--exclude", ".git", REPO + "/", scratch + "/"], check=True)
    log = open(f"/var/tmp/mutation_sweep_{seed}.log", "a")
    done = surv = invalid = 0
    try:
        for (path, i, (d, recv, fn), kind, newline, desc) in cands:
            if done >= n:
                break
            src = os.path.join(REPO, path)
            dst = os.path.join(scratch, path)
            lines = open(src).read().split("\n")
            old = lines[i]
            lines[i] = newline
            open(dst, "w").write("\n".join(lines))
            b = subprocess.run(["go", "build", "./" + d + "/..."], cwd=scratch, env=ENV, capture_output=True, text=True)
            if b.returncode != 0:
                invalid += 1
                shutil.copy(src, dst)
                continue
            key = f"{d}\\.{recv + '.' if recv else ''}{fn}$".replace("/", "/")
            t0 = time.time()
            r = subprocess.run(["/verif/bin/govc", "check", "-prop", "", "-fn", key, "-repo", scratch, "-evidence", os.path.join(scratch, ".e.json")],
                               env=ENV, capture_output=True, text=True)
            done += 1
            out = r.stdout
            status = "killed" if r.returncode == 1 else ("SURVIVED" if r.returncode == 0 else f"tool-rc-{r.returncode}")
            if "no contracts serve" in out:
                status = "no-contract-matched"
            viol = [re.sub(r".*obligation=(\S+).*", r"\1", l) for l in out.split("\n") if l.startswith("VIOLATION") and "obligation=" in l][:3]
            if status == "SURVIVED":
                surv += 1
            rec = {"file": path, "line": i + 1, "func": f"{recv}.{fn}" if recv else fn, "mutation": desc, "old": old.strip(), "new": newline.strip(),
                   "status": status, "secs": round(time.time() - t0, 1), "obligations": viol}
            log.write(json.dumps(rec) + "\n"); log.flush()
            print(f"[{done}/{n}] {status:9s} {path}:{i+1} {rec['func']}: {desc}   {' '.join(viol)[:120]}", flush=True)
            shutil.copy(src, dst)
    finally:
        shutil.rmtree(scratch, ignore_errors=True)
    print(f"done: {done} mutants, {surv} survived, {invalid} did not compile")

if __name__ == "__main__":
    main()
