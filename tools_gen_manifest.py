#!/usr/bin/env python3
# Generates /verif/MANIFEST.json from the table below (kept in one place so that claims, notes and not_applicable stay in sync).
import json, subprocess
claims = {
 "C02": ("block-level code under nopanic/terminates contracts - node BeginBlocker (under coherent validated parameters and the pool ratio, which every pool writer re-establishes), node EndBlock, model EndBlocker, genesis import of all six modules, reward math, provider selection, schedule writers, HandleExpiredShard (under a stated per-shard condition), termination of every loop of HandleTimeoutOrder: every panicking operation and every loop in those functions is an obligation; the two loops of sao.EndBlocker compose these per-item results by a meta-argument; the per-shard condition of HandleExpiredShard is also evaluated on the real state before every end blocker run of 18 bounded histories (labelled bounded)", "DESIGN.md 6 C02"),
 "C04": ("functional contracts of the escrow hops (Store charge = quoted price rounded up, renewal quote and charge, worker accrual, claim, deposit, order refund/termination, payment address, hand-over of serving order, queued renewals and end height when a migrated shard is completed) discharged for all inputs", "DESIGN.md 6 C04"),
 "C05": ("postconditions of cancellation (Cancel handler, CancelOrder, RefundOrder, RollbackMeta) taken from the statement, discharged for all orders, shard lists and metadata states", "DESIGN.md 6 C05"),
 "C06": ("ledger/bank pairing clauses on the functions that move escrowed coins (DID balances, order refunds, pledge, release, claim)", "DESIGN.md 6 C06"),
 "C07": ("delta contracts on every collateral function (ShardPledge, ShardRelease, RepayPledgeDebt, Add/RemoveVstorage, ClaimReward) incl. capacity invariant and exact amounts", "DESIGN.md 6 C07"),
 "C08": ("mint bound, counter == minted, accumulator update (BeginBlocker) and settle invariants of every capacity change; claim pays floor(Q) less debt", "DESIGN.md 6 C08"),
 "C10": ("actor clauses from the statement on Complete (assigned provider or its registered address), Cancel, Store (payer/gateway), Ready, Renew, Migrate (own completed shards only), Terminate and on the node handlers Create/Reset/Add/RemoveVstorage/ClaimReward (frames keyed by msg.Creator)", "DESIGN.md 6 C10"),
 "C12": ("scheduling and per-step progress contracts: Store/Ready schedule the first check strictly in the future, SetTimeoutOrderBlock keeps the queue, HandleTimeoutOrder leaves the order resolved or rescheduled (one known finding) and never touches a fully stored order; the step from per-step progress to 'eventually' is a meta-argument over block production", "DESIGN.md 6 C12"),
 "C13": ("relational clauses on the writers of orders and shards: NewOrder/GenerateShards/Store/Ready create exactly the listed shards pointing back at the order, HandleTimeoutOrder keeps every shard that names the order listed by it, HandleExpiredShard removes the order with its last shard and reschedules a renewed shard at its new end height, Complete schedules the release of the completed shard and hands the serving order and renewals to a migrated shard, NewMeta creates exactly one alias entry and RollbackMeta/DeleteMeta remove it with the model; the rewrite of the renewal orders' shard lists when a migrated shard is completed (pointer lists, outside the verifier's reach) is decided by a bounded stand-in on the real application (two clauses of 9 histories each, labelled bounded, one recorded finding); the whole-state invariant is assumed at entry of each handler and re-established clause by clause, not discharged against InitGenesis", "DESIGN.md 6 C13"),
 "C11": ("scheduling contracts of the data-expiry schedule (set/remove/reset/rollback keep the model's single entry at CreatedAt+Duration of the stored record) and of the shard-expiry schedule (Complete, Renew, HandleExpiredShard reschedule at the end of the paid period)", "DESIGN.md 6 C11"),
 "C14": ("delta contracts for used capacity, shard collateral, worker storage/income and pool totals on every writer under contract", "DESIGN.md 6 C14"),
 "C16": ("identifier freshness and monotonicity of AppendOrder/AppendShard against the stored counters, with the id<count invariant as pre/postcondition", "DESIGN.md 6 C16"),
 "C01": ("per-transition frame obligations over the go/ssa call graph (no mutable package-level state read or written, wall clock/random sources reach only effect-free sinks, no goroutines/channels) for all 46 transitions, plus, for every loop that ranges over a Go map (Terminate, UpdateMeta, DoPenalty), an SMT-discharged order-independence contract over the modelled state and the rule that nothing reachable from the loop body emits an event", "DESIGN.md 6 C01"),
 "C03": ("per-transition frame obligations: no transition's closure reads or writes a mutable package-level variable (the only process memory a later transition could observe)", "DESIGN.md 6 C03"),
 "C09": ("signature/permission clauses from the statement on Store, Renew (owner only), Terminate, UpdateMeta (owner or read-write grantee) UpdatePermission (owner only) and its handler UpdataPermission (signed by the owner; the loop-carrying closure checkDid is abstracted by its write set), frame of all other models, trusted contract for verifySignature (sao-did)", "DESIGN.md 6 C09"),
 "C15": ("functional contracts of the selection chain: node filter (eligibility, stored, pairwise distinct via key order), RandomIndex (range, distinct, terminates), GetNextSuperNodes, RandomSP (count, eligible, not ignored, distinct); SelectNodes assumed with a bounded stand-in", "DESIGN.md 6 C15"),
 "C17": ("clauses from the statement on the three DID handlers: Binding (account not bound before, bound to the proof's DID afterwards, listed exactly once, proof signed by the account's key and timestamp within the window, creator already bound once the DID exists, first cosmos account becomes the payment address; the clause that the signed text names the DID and time is a recorded finding), Update (creator bound; the payment-address account is never unbound: call-site assertion at every RemoveDid; every removed account is unbound and delisted, the others stay listed, and accounts of other DIDs stay bound - the last by the pigeonhole principle, a ghost axiom proved in lemmas/Pigeonhole.lean and re-checked by lean on every run, under the registry hypotheses C17.inv.nodup/listed), UpdatePaymentAddress (sid: the new address is an account bound to that DID on this chain; key: set once, by the address itself, one key DID per address); signature verification and CAIP-10 parsing are assumed contracts", "DESIGN.md 6 C17"),
 "C18": ("per module: footprint obligation (every KV prefix the module writes is read by ExportGenesis and written by InitGenesis, decided over the SSA of the module), GetAll* returns every stored record exactly as stored (iterator contract, all iterations), InitGenesis stores every listed record under its own key, ExportGenesis = the stores; Validate ==> importable (pool present). Composition Init(Export(s)) == s and equal continuation are meta-arguments; bank/auth/staking genesis and app/export.go are out of scope", "DESIGN.md 6 C18"),
 "C19": ("clauses from the statement on ReportFaults/RecoverFaults: success only for a registered node that is a fishman (or the accused provider itself for recovery); a report is stored only for an existing, unexpired shard the accused holds for the named order and model (call-site assertion at SetFault, all iterations); frame obligations: ReportFaults writes fault records only, RecoverFaults fault records, fishing rewards and the accused provider's own pledge record only, whose reward, debt and capacity pledge never grow nor go negative; DoPenalty touches no balance and no pledge", "DESIGN.md 6 C19"),
 "C20": ("Super ==> Req clauses on CheckDelegationShare, CheckNodeShare, AddVstorage (promotion), RemoveVstorage (demotion) and the staking hooks (promotion only with full status, pledge threshold and delegation share)", "DESIGN.md 6 C20"),
}
na = {
 "_C01": "not yet decided by the machinery in this commit (det@ frame obligations are designed in DESIGN.md 3.4 but not built)",
 "_C03": "not yet decided by the machinery in this commit (global-variable frame obligations not built)",
 "_C09": "not yet decided: the Store/Renew/Terminate/UpdataPermission handlers are not under contract yet",
 "_C15": "not yet decided: selection functions (RandomIndex, SelectNodes, GetNextSuperNodes, RandomSP) not under contract yet; SelectNodes/heapify write slice elements in place, which is outside the value-semantics subset of the engine",
}
src = subprocess.run(["git","-C","/repo","log","--format=%h %s"],capture_output=True,text=True).stdout.splitlines()
hook_commits=[l.split()[0] for l in src if l.split(' ',1)[1].startswith('verif:')]
m = {
 "version": 1,
 "setup_cmd": "cd /verif/govc && GOFLAGS=-mod=mod GOPROXY=off GOSUMDB=off GOTOOLCHAIN=local go build -o /verif/bin/govc .",
 "hooks": {
  "guard": "verif",
  "enable": "contracts are comment-only files x/*/zz_verif_contracts.go and x/*/keeper/zz_verif_contracts.go (//go:build verif, a package clause and //@ comments, no declarations); govc loads /repo with -tags=verif. With the tag off the files are not part of the build.",
  "baseline_off_cmd": "cd /repo && GOFLAGS=-mod=mod go test -json -vet=off -count=1 -timeout 25m ./...",
  "source_commits": hook_commits,
  "add_only": True
 },
 "engines": [{"name": "govc", "path": "/verif/govc", "serves_properties": sorted(claims), "kind_free_text": "deductive verifier for Go built here: go/ssa of /repo's working tree -> passive-form verification conditions with cut loops, modular contracts (//@ requires/ensures/modifies/invariant/decreases in Gobra style) -> SMT-LIB 2; obligations discharged by z3 5.1.0, cvc5 1.0, z3 4.8.12; counterexamples replayed on the real code through go test -overlay (in-package) and the real app over MemDB"}],
 "checks": [],
 "not_applicable": [{"property_id": k, "reason": v} for k, v in sorted(na.items()) if not k.startswith("_")],
 "notes": "Every check regenerates its obligations from /repo's working tree. A property's check discharges the clauses tagged with the property on the functions that carry them and ALL obligations of every function whose contract is used at a call site (transitively). Known findings and fixes: /verif/known_findings.txt."
}
for p,(text,ref) in sorted(claims.items()):
    m["checks"].append({
      "property_id": p, "quick_cmd": f"./check {p} --tier quick", "thorough_cmd": f"./check {p} --tier thorough",
      "evidence_file": f"/verif/evidence/{p}.json", "engine": "govc",
      "replay_cmd_template": "./replay/run_replay.sh <pkg> {path} <Test regexp>  (registered replays: /verif/replay/tests)",
      "level_claimed": {"category": "proof", "text": text, "design_ref": ref},
      "level_note": "Per-function contracts proved for all inputs and iterations; the step from per-function contracts to the whole-history statement is a meta-argument (DESIGN.md 3). Assumed: the external contracts listed in the evidence trusted_base (Cosmos SDK bank/store/codec/Int/Dec/Coin, staking reads), protobuf round trip, key injectivity, canonical bech32 strings, baseapp rollback on error, app.go wiring; hypotheses stated as requires on top-level handlers (representation invariants of stored records) are not discharged against InitGenesis.",
      "technique": "contract-based deductive verification: //@ contracts on the real functions, VCs generated over go/ssa, discharged by SMT (z3/cvc5)"
    })
json.dump(m, open("/verif/MANIFEST.json","w"), indent=1)
print("manifest written:", len(m["checks"]), "checks,", len(m["not_applicable"]), "not applicable")
