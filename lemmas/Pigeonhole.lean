/-
Pigeonhole lemma used as the ghost axiom `pigeon.cover` in /repo/x/did/keeper/zz_verif_contracts.go.

If a duplicate-free list A is covered by two lists R and U (every element of A occurs in R or in U) and
|A| = |R| + |U|, then every element of R (and of U) occurs in A.

Checked by `lean` (Lean 4 + Mathlib) on every thorough run of property C17; the transcription of the statement
into the SMT axiom (sequences as (array, length) pairs of the slice datatype, membership as `contains`) is trusted.
-/
import Mathlib.Data.List.Perm.Subperm
import Mathlib.Data.List.Nodup

theorem pigeon_cover {α : Type} [DecidableEq α] (A R U : List α)
    (hnd : A.Nodup) (hlen : A.length = R.length + U.length)
    (hcov : ∀ a ∈ A, a ∈ R ∨ a ∈ U) :
    (∀ r ∈ R, r ∈ A) ∧ (∀ u ∈ U, u ∈ A) := by
  have hsub : A ⊆ R ++ U := by
    intro a ha
    rcases hcov a ha with h | h
    · exact List.mem_append_left _ h
    · exact List.mem_append_right _ h
  have hsp : List.Subperm A (R ++ U) := List.subperm_of_subset hnd hsub
  have hle : (R ++ U).length ≤ A.length := by
    rw [List.length_append, hlen]; exact Nat.le_refl _
  have hperm : List.Perm A (R ++ U) := hsp.perm_of_length_le hle
  constructor
  · intro r hr
    exact hperm.mem_iff.mpr (List.mem_append_left _ hr)
  · intro u hu
    exact hperm.mem_iff.mpr (List.mem_append_right _ hu)

#print axioms pigeon_cover
