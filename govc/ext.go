package main

// Assumed contracts of code outside /repo (Cosmos SDK, std lib) as encoder rules. Every rule that fires is
// recorded in Gen.usedExt and ends up in the evidence file's trusted_base.

import (
	"fmt"
	"go/types"
	"math/big"
	"regexp"
	"strings"

	"golang.org/x/tools/go/ssa"
)

type extRule func(cc *callCtx) ([]string, bool)

const (
	sdkT    = "github.com/cosmos/cosmos-sdk/types"
	mathP   = "cosmossdk.io/math"
	decOne  = "1000000000000000000"
	bankSrt = "(Array Addr (Array Str Int))"
)

var sinkRe = regexp.MustCompile(`(^\(github\.com/tendermint/tendermint/libs/log\.Logger\)\.)|(\.Logger$)|(^github\.com/cosmos/cosmos-sdk/telemetry\.)|(EventManager\)\.Emit)|(\)\.EventManager$)|(^github\.com/cosmos/cosmos-sdk/types\.NewEvent$)|(^github\.com/cosmos/cosmos-sdk/types\.NewAttribute$)|(^fmt\.Print)|(^github\.com/armon/go-metrics)`)

func isSinkName(n string) bool {
	return sinkRe.MatchString(n)
}

func registerGhosts(v *Verifier) {
	v.ghostFuns["coinsLen"] = ghostSig{[]string{"Slice_sdk_Coin"}, "Int"}
	v.ghostFuns["decquo"] = ghostSig{[]string{"Int", "Int"}, "Int"}
	v.ghostFuns["be64dec"] = ghostSig{[]string{"Slice_Int"}, "Int"}
	v.ghostFuns["be64enc"] = ghostSig{[]string{"Int"}, "Slice_Int"}
	v.ghostFuns["validDenom"] = ghostSig{[]string{sortStr}, "Bool"}
	v.ghostFuns["decmul"] = ghostSig{[]string{"Int", "Int"}, "Int"}
	v.ghostFuns["pow2"] = ghostSig{[]string{"Int"}, "Int"}
	v.ghostFuns["hasDelegation"] = ghostSig{[]string{sortAddr, sortAddr}, "Bool"}
	v.ghostFuns["delegationShares"] = ghostSig{[]string{sortAddr, sortAddr}, "Int"}
	v.ghostFuns["hasValidator"] = ghostSig{[]string{sortAddr}, "Bool"}
	v.ghostFuns["validatorShares"] = ghostSig{[]string{sortAddr}, "Int"}
	v.ghostFuns["valAddrOf"] = ghostSig{[]string{sortStr}, sortAddr}
	v.ghostFuns["validValAddr"] = ghostSig{[]string{sortStr}, "Bool"}
	v.ghostFuns["decFromStr"] = ghostSig{[]string{sortStr}, "Int"}
	v.ghostFuns["decFromStrOk"] = ghostSig{[]string{sortStr}, "Bool"}
	v.ghostFuns["didMethod"] = ghostSig{[]string{sortStr}, sortStr}
	v.ghostFuns["didId"] = ghostSig{[]string{sortStr}, sortStr}
	v.ghostFuns["didParses"] = ghostSig{[]string{sortStr}, "Bool"}
	v.ghostFuns["unixOf"] = ghostSig{[]string{"Int"}, "Int"}
	v.ghostFuns["blockedAddr"] = ghostSig{[]string{sortAddr}, "Bool"}
	v.ghostFuns["strcontains"] = ghostSig{[]string{sortStr, sortStr}, "Bool"}
	v.ghostFuns["strhasprefix"] = ghostSig{[]string{sortStr, sortStr}, "Bool"}
	v.ghostFuns["strlen"] = ghostSig{[]string{sortStr}, "Int"}
}

func (e *Enc) extCall(x ssa.Value, cc *callCtx, name string) bool {
	rule, ok := extRules[name]
	if !ok {
		// generic families
		switch {
		case strings.HasSuffix(name, ").String") && cc.sig.Results().Len() == 1 && e.g().SortOf(cc.sig.Results().At(0).Type()) == sortStr:
			rule = ruleStringer
		default:
			return false
		}
	}
	res, ok := rule(cc)
	if !ok {
		return false
	}
	e.g().usedExt[name] = true
	e.setResults(x, cc.sig, res)
	return true
}

// ruleStringer: String() is a deterministic function of the receiver (per receiver sort).
func ruleStringer(cc *callCtx) ([]string, bool) {
	e := cc.e
	s := e.g().SortOf(cc.args[0].Type())
	if s == sortAddr {
		return []string{fmt.Sprintf("(addrStr %s)", cc.arg(0))}, true
	}
	fn := "tostring_" + mangle(s)
	e.g().DeclFun(fn, []string{s}, sortStr)
	return []string{fmt.Sprintf("(%s %s)", fn, cc.arg(0))}, true
}

func (cc *callCtx) def(pfx, sort, term string) string { return cc.e.r.def(cc.e.pfx+pfx, sort, term) }

func (cc *callCtx) reach() string { return cc.e.reach[cc.e.cur] }

// freshErr returns a fresh non-nil error value.
func (cc *callCtx) freshErr() string {
	n := cc.e.havocSort("Int", "err")
	cc.e.r.assume(fmt.Sprintf("(not (= %s 0))", n))
	return n
}

var extRules = map[string]extRule{}

func init() {
	// ---------------------------------------------------------------- errors
	wrap := func(cc *callCtx) ([]string, bool) {
		// Wrap(nil, ...) == nil ; otherwise non-nil
		n := cc.e.havocSort("Int", "werr")
		cc.e.r.assume(fmt.Sprintf("(= (= %s 0) (= %s 0))", n, cc.arg(0)))
		return []string{n}, true
	}
	for _, n := range []string{sdkT + "/errors.Wrap", sdkT + "/errors.Wrapf", "cosmossdk.io/errors.Wrap", "cosmossdk.io/errors.Wrapf",
		"github.com/pkg/errors.Wrap", "github.com/pkg/errors.Wrapf"} {
		extRules[n] = wrap
	}
	nonNilErr := func(cc *callCtx) ([]string, bool) { return []string{cc.freshErr()}, true }
	for _, n := range []string{"google.golang.org/grpc/status.Error", "google.golang.org/grpc/status.Errorf", "errors.New", "fmt.Errorf",
		"github.com/pkg/errors.New", "github.com/pkg/errors.Errorf", "cosmossdk.io/errors.Register", sdkT + "/errors.Register"} {
		extRules[n] = nonNilErr
	}
	// grpc status with codes.OK would be nil; all call sites use non-OK constant codes (checked here)
	extRules["google.golang.org/grpc/status.Error"] = func(cc *callCtx) ([]string, bool) {
		if c, ok := constInt(cc.args[0]); !ok || c == 0 {
			cc.e.r.errorf("status.Error with non-constant or OK code in %s", cc.e.fn.Name())
		}
		return []string{cc.freshErr()}, true
	}
	extRules["google.golang.org/grpc/status.Errorf"] = extRules["google.golang.org/grpc/status.Error"]
	extRules["(error).Error"] = func(cc *callCtx) ([]string, bool) {
		cc.e.g().DeclFun("errmsg", []string{"Int"}, sortStr)
		return []string{fmt.Sprintf("(errmsg %s)", cc.arg(0))}, true
	}
	extRules["(*cosmossdk.io/errors.Error).Error"] = extRules["(error).Error"]

	// ---------------------------------------------------------------- context
	extRules[sdkT+".UnwrapSDKContext"] = func(cc *callCtx) ([]string, bool) { return []string{"ctx0"}, true }
	extRules[sdkT+".WrapSDKContext"] = func(cc *callCtx) ([]string, bool) { return []string{"ctx0"}, true }
	extRules["("+sdkT+".Context).BlockHeight"] = func(cc *callCtx) ([]string, bool) { return []string{"H"}, true }
	extRules["("+sdkT+".Context).ChainID"] = func(cc *callCtx) ([]string, bool) {
		cc.e.g().DeclFun("ChainID", nil, sortStr)
		return []string{"ChainID"}, true
	}
	extRules["("+sdkT+".Context).BlockTime"] = func(cc *callCtx) ([]string, bool) {
		cc.e.g().DeclFun("BlockTime", nil, "Int")
		return []string{"BlockTime"}, true
	}
	extRules["time.Now"] = func(cc *callCtx) ([]string, bool) {
		// wall clock: a fresh unconstrained value at every call (non-consensus input)
		return []string{cc.e.havocSort("Int", "wallclock")}, true
	}
	extRules["(time.Time).Unix"] = func(cc *callCtx) ([]string, bool) {
		cc.e.g().DeclFun("unixOf", []string{"Int"}, "Int")
		r := cc.def("unix", "Int", fmt.Sprintf("(unixOf %s)", cc.arg(0)))
		cc.e.rangeAssume(r, types.Typ[types.Int64])
		return []string{r}, true
	}

	// ---------------------------------------------------------------- addresses
	extRules["("+sdkT+".AccAddress).String"] = func(cc *callCtx) ([]string, bool) {
		return []string{fmt.Sprintf("(addrStr %s)", cc.arg(0))}, true
	}
	extRules[sdkT+".AccAddressFromBech32"] = func(cc *callCtx) ([]string, bool) {
		s := cc.arg(0)
		err := cc.e.havocSort("Int", "berr")
		cc.e.r.assume(fmt.Sprintf("(= (= %s 0) (validAddr %s))", err, s))
		return []string{fmt.Sprintf("(ite (= %s 0) (addrOf %s) addr_nil)", err, s), err}, true
	}
	extRules[sdkT+".MustAccAddressFromBech32"] = func(cc *callCtx) ([]string, bool) {
		s := cc.arg(0)
		cc.e.panicIf(fmt.Sprintf("(not (validAddr %s))", s), "MustAccAddressFromBech32: invalid address", cc.ins)
		return []string{fmt.Sprintf("(addrOf %s)", s)}, true
	}
	extRules[sdkT+".ValAddressFromBech32"] = func(cc *callCtx) ([]string, bool) {
		s := cc.arg(0)
		cc.e.g().DeclFun("validValAddr", []string{sortStr}, "Bool")
		cc.e.g().DeclFun("valAddrOf", []string{sortStr}, sortAddr)
		err := cc.e.havocSort("Int", "verr")
		cc.e.r.assume(fmt.Sprintf("(= (= %s 0) (validValAddr %s))", err, s))
		return []string{fmt.Sprintf("(valAddrOf %s)", s), err}, true
	}
	extRules["("+sdkT+".AccAddress).Empty"] = func(cc *callCtx) ([]string, bool) {
		return []string{fmt.Sprintf("(= %s addr_nil)", cc.arg(0))}, true
	}

	// ---------------------------------------------------------------- sdk.Int
	I := "(" + mathP + ".Int)."
	bin := func(op string) extRule {
		return func(cc *callCtx) ([]string, bool) {
			return []string{cc.def("i", "Int", fmt.Sprintf("(%s %s %s)", op, cc.arg(0), cc.arg(1)))}, true
		}
	}
	cmp := func(op string) extRule {
		return func(cc *callCtx) ([]string, bool) {
			return []string{cc.def("c", "Bool", fmt.Sprintf("(%s %s %s)", op, cc.arg(0), cc.arg(1)))}, true
		}
	}
	for _, t := range []string{I, "(" + sdkT + ".Dec)."} {
		extRules[t+"Add"] = bin("+")
		extRules[t+"Sub"] = bin("-")
		extRules[t+"GT"] = cmp(">")
		extRules[t+"GTE"] = cmp(">=")
		extRules[t+"LT"] = cmp("<")
		extRules[t+"LTE"] = cmp("<=")
		extRules[t+"Equal"] = cmp("=")
		extRules[t+"IsZero"] = func(cc *callCtx) ([]string, bool) { return []string{fmt.Sprintf("(= %s 0)", cc.arg(0))}, true }
		extRules[t+"IsNegative"] = func(cc *callCtx) ([]string, bool) { return []string{fmt.Sprintf("(< %s 0)", cc.arg(0))}, true }
		extRules[t+"IsPositive"] = func(cc *callCtx) ([]string, bool) { return []string{fmt.Sprintf("(> %s 0)", cc.arg(0))}, true }
		extRules[t+"Neg"] = func(cc *callCtx) ([]string, bool) { return []string{fmt.Sprintf("(- %s)", cc.arg(0))}, true }
		extRules[t+"IsNil"] = func(cc *callCtx) ([]string, bool) { return []string{"false"}, true }
	}
	extRules[I+"AddRaw"] = bin("+")
	extRules[I+"SubRaw"] = bin("-")
	mulR := func(cc *callCtx) ([]string, bool) {
		return []string{cc.def("m", "Int", mulTerm(cc.arg(0), cc.arg(1)))}, true
	}
	extRules[I+"Mul"] = mulR
	extRules[I+"MulRaw"] = mulR
	quoI := func(cc *callCtx) ([]string, bool) {
		cc.e.panicIf(fmt.Sprintf("(= %s 0)", cc.arg(1)), "Int.Quo: division by zero", cc.ins)
		return []string{cc.def("q", "Int", divTerm("tdiv", cc.arg(0), cc.arg(1)))}, true
	}
	extRules[I+"Quo"] = quoI
	extRules[I+"QuoRaw"] = quoI
	extRules[I+"Int64"] = func(cc *callCtx) ([]string, bool) {
		a := cc.arg(0)
		cc.e.panicIf(fmt.Sprintf("(or (< %s (- 9223372036854775808)) (> %s 9223372036854775807))", a, a), "Int.Int64: out of range", cc.ins)
		return []string{a}, true
	}
	extRules[I+"Uint64"] = func(cc *callCtx) ([]string, bool) {
		a := cc.arg(0)
		cc.e.panicIf(fmt.Sprintf("(or (< %s 0) (> %s 18446744073709551615))", a, a), "Int.Uint64: out of range", cc.ins)
		return []string{a}, true
	}
	extRules[I+"BigInt"] = func(cc *callCtx) ([]string, bool) {
		// returns a fresh *big.Int holding a copy
		e := cc.e
		ref := e.allocRef()
		h := e.heapFor(cc.sig.Results().At(0).Type().(*types.Pointer).Elem())
		e.setState(h, "", fmt.Sprintf("(store %s %s %s)", e.getState(h), ref, cc.arg(0)))
		return []string{ref}, true
	}
	ident := func(cc *callCtx) ([]string, bool) { return []string{cc.arg(0)}, true }
	for _, n := range []string{sdkT + ".NewInt", mathP + ".NewInt", sdkT + ".NewIntFromUint64", mathP + ".NewIntFromUint64"} {
		extRules[n] = ident
	}
	for _, n := range []string{sdkT + ".ZeroInt", mathP + ".ZeroInt", sdkT + ".ZeroDec"} {
		extRules[n] = func(cc *callCtx) ([]string, bool) { return []string{"0"}, true }
	}
	for _, n := range []string{sdkT + ".OneInt", mathP + ".OneInt"} {
		extRules[n] = func(cc *callCtx) ([]string, bool) { return []string{"1"}, true }
	}
	newIntFromBig := func(cc *callCtx) ([]string, bool) {
		l := cc.loc(0)
		t, _ := cc.e.load(l)
		return []string{cc.def("nib", "Int", t)}, true
	}
	extRules[sdkT+".NewIntFromBigInt"] = newIntFromBig
	extRules[mathP+".NewIntFromBigInt"] = newIntFromBig

	// ---------------------------------------------------------------- sdk.Dec (scaled integer, 18 decimals)
	D := "(" + sdkT + ".Dec)."
	extRules[D+"MulInt64"] = mulR
	extRules[D+"MulInt"] = mulR
	quoD := func(cc *callCtx) ([]string, bool) {
		cc.e.panicIf(fmt.Sprintf("(= %s 0)", cc.arg(1)), "Dec.QuoInt64: division by zero", cc.ins)
		return []string{cc.def("dq", "Int", divTerm("tdiv", cc.arg(0), cc.arg(1)))}, true
	}
	extRules[D+"QuoInt64"] = quoD
	extRules[D+"QuoInt"] = quoD
	extRules[D+"TruncateInt"] = func(cc *callCtx) ([]string, bool) {
		return []string{cc.def("tr", "Int", fmt.Sprintf("(tdiv %s %s)", cc.arg(0), decOne))}, true
	}
	extRules[D+"TruncateInt64"] = func(cc *callCtx) ([]string, bool) {
		r := cc.def("tr", "Int", fmt.Sprintf("(tdiv %s %s)", cc.arg(0), decOne))
		cc.e.panicIf(fmt.Sprintf("(or (< %s (- 9223372036854775808)) (> %s 9223372036854775807))", r, r), "Dec.TruncateInt64: out of range", cc.ins)
		return []string{r}, true
	}
	extRules[D+"Ceil"] = func(cc *callCtx) ([]string, bool) {
		a := cc.arg(0)
		// ceil to a whole number, still a Dec: ceil(a/1e18)*1e18 ; for negative a: truncation toward zero is the ceiling
		return []string{cc.def("ceil", "Int", fmt.Sprintf("(* %s (- (div (- %s) %s)))", decOne, a, decOne))}, true
	}
	// Mul / Quo: exact real result rounded half-even to 18 decimals: |r*1e18 - a*b| <= 1e18/2
	extRules[D+"Mul"] = func(cc *callCtx) ([]string, bool) {
		a, b := cc.arg(0), cc.arg(1)
		cc.e.g().DeclFun("decmul", []string{"Int", "Int"}, "Int")
		r := cc.def("dmul", "Int", fmt.Sprintf("(decmul %s %s)", a, b))
		cc.e.r.assume(fmt.Sprintf("(and (<= (- (* 2 (* %s %s)) %s) (* 2 (* %s %s))) (<= (* 2 (* %s %s)) (+ (* 2 (* %s %s)) %s)))", a, b, decOne, r, decOne, r, decOne, a, b, decOne))
		return []string{r}, true
	}
	extRules[D+"Quo"] = func(cc *callCtx) ([]string, bool) {
		a, b := cc.arg(0), cc.arg(1)
		cc.e.panicIf(fmt.Sprintf("(= %s 0)", b), "Dec.Quo: division by zero", cc.ins)
		r := cc.def("dquo", "Int", fmt.Sprintf("(decquo %s %s)", a, b))
		// |r*b - a*1e18| <= |b|/2  (+1 for the double rounding of the SDK's chopPrecisionAndRound on an already rounded quotient)
		cc.e.r.assume(fmt.Sprintf("(let ((d (- (* 2 (* %s %s)) (* 2 (* %s %s)))) (ab (ite (>= %s 0) %s (- %s)))) (and (<= (- (+ ab 2)) d) (<= d (+ ab 2))))", r, b, a, decOne, b, b, b))
		return []string{r}, true
	}
	extRules[D+"String"] = func(cc *callCtx) ([]string, bool) {
		g := cc.e.g()
		g.DeclFun("decString", []string{"Int"}, sortStr)
		g.DeclFun("decFromStr", []string{sortStr}, "Int")
		g.DeclFun("decFromStrOk", []string{sortStr}, "Bool")
		g.Axiom("dec.string.roundtrip", "(forall ((d Int)) (! (and (decFromStrOk (decString d)) (= (decFromStr (decString d)) d)) :pattern ((decString d))))")
		return []string{cc.def("dstr", sortStr, fmt.Sprintf("(decString %s)", cc.arg(0)))}, true
	}
	extRules[D+"MustFloat64"] = func(cc *callCtx) ([]string, bool) {
		cc.e.g().DeclFun("dec2f64", []string{"Int"}, sortF64)
		return []string{fmt.Sprintf("(dec2f64 %s)", cc.arg(0))}, true
	}
	newDec := func(cc *callCtx) ([]string, bool) {
		if c, ok := constInt(cc.args[0]); ok && c >= 0 {
			v := new(big.Int)
			v.SetString(decOne, 10)
			v.Mul(v, big.NewInt(c))
			return []string{v.String()}, true
		}
		return []string{cc.def("nd", "Int", fmt.Sprintf("(* %s %s)", cc.arg(0), decOne))}, true
	}
	extRules[sdkT+".NewDec"] = newDec
	extRules[sdkT+".NewDecFromInt"] = newDec
	extRules[sdkT+".NewDecWithPrec"] = func(cc *callCtx) ([]string, bool) {
		p, ok := constInt(cc.args[1])
		if !ok || p < 0 || p > 18 {
			return nil, false
		}
		m := "1" + strings.Repeat("0", int(18-p))
		if c, ok := constInt(cc.args[0]); ok && c >= 0 {
			v := new(big.Int)
			v.SetString(m, 10)
			v.Mul(v, big.NewInt(c))
			return []string{v.String()}, true
		}
		return []string{cc.def("ndp", "Int", fmt.Sprintf("(* %s %s)", cc.arg(0), m))}, true
	}
	extRules[sdkT+".NewDecFromStr"] = func(cc *callCtx) ([]string, bool) {
		cc.e.g().DeclFun("decFromStr", []string{sortStr}, "Int")
		cc.e.g().DeclFun("decFromStrOk", []string{sortStr}, "Bool")
		err := cc.e.havocSort("Int", "dserr")
		cc.e.r.assume(fmt.Sprintf("(= (= %s 0) (decFromStrOk %s))", err, cc.arg(0)))
		return []string{fmt.Sprintf("(decFromStr %s)", cc.arg(0)), err}, true
	}
	// in-place mutators: write back to the receiver's location
	extRules["(*"+sdkT+".Dec).AddMut"] = nil
	delete(extRules, "(*"+sdkT+".Dec).AddMut")
	extRules[D+"AddMut"] = func(cc *callCtx) ([]string, bool) {
		// value receiver with shared *big.Int: mutates the big.Int the receiver value shares with its origin. The origin is
		// traceable only when the receiver was just loaded from a location.
		l := receiverOrigin(cc.e, cc.args[0])
		if l == nil {
			cc.e.r.errorf("outside subset: Dec.AddMut on untraceable receiver in %s", cc.e.fn.Name())
			return nil, false
		}
		cur, _ := cc.e.load(l)
		nv := cc.def("addmut", "Int", fmt.Sprintf("(+ %s %s)", cur, cc.arg(1)))
		cc.e.store(l, nv)
		return []string{nv}, true
	}
	extRules[D+"SetInt64"] = func(cc *callCtx) ([]string, bool) {
		l := receiverOrigin(cc.e, cc.args[0])
		if l == nil {
			cc.e.r.errorf("outside subset: Dec.SetInt64 on untraceable receiver in %s", cc.e.fn.Name())
			return nil, false
		}
		nv := cc.def("setint", "Int", fmt.Sprintf("(* %s %s)", cc.arg(1), decOne))
		cc.e.store(l, nv)
		return []string{nv}, true
	}

	// ---------------------------------------------------------------- sdk.Coin / DecCoin
	coinRules()
	bankRules()
	storeRules()
	miscRules()
}

// receiverOrigin: the location a value-receiver was loaded from (the instruction just before is `t = *addr`).
func receiverOrigin(e *Enc, v ssa.Value) *Loc {
	if u, ok := v.(*ssa.UnOp); ok {
		if l, ok := e.locs[u.X]; ok && l != nil {
			return l
		}
		if _, ok := u.X.(*ssa.Global); ok {
			return e.locOf(u.X)
		}
		if a, ok := u.X.(*ssa.Alloc); ok {
			return e.locs[a]
		}
	}
	return nil
}

func coinSort(e *Enc) (string, *types.Struct, types.Type) {
	t := e.r.v.lookupType(sdkT + ".Coin")
	s := e.g().SortOf(t)
	return s, t.Underlying().(*types.Struct), t
}

func decCoinSort(e *Enc) (string, *types.Struct, types.Type) {
	t := e.r.v.lookupType(sdkT + ".DecCoin")
	s := e.g().SortOf(t)
	return s, t.Underlying().(*types.Struct), t
}

func coinRules() {
	C := "(" + sdkT + ".Coin)."
	DC := "(" + sdkT + ".DecCoin)."
	mk := func(cc *callCtx, dec bool, denom, amt string) string {
		if dec {
			s, _, _ := decCoinSort(cc.e)
			return fmt.Sprintf("(mk_%s %s %s)", s, denom, amt)
		}
		s, _, _ := coinSort(cc.e)
		return fmt.Sprintf("(mk_%s %s %s)", s, denom, amt)
	}
	den := func(cc *callCtx, dec bool, c string) string {
		if dec {
			s, _, _ := decCoinSort(cc.e)
			return fmt.Sprintf("(%s_Denom %s)", s, c)
		}
		s, _, _ := coinSort(cc.e)
		return fmt.Sprintf("(%s_Denom %s)", s, c)
	}
	amt := func(cc *callCtx, dec bool, c string) string {
		if dec {
			s, _, _ := decCoinSort(cc.e)
			return fmt.Sprintf("(%s_Amount %s)", s, c)
		}
		s, _, _ := coinSort(cc.e)
		return fmt.Sprintf("(%s_Amount %s)", s, c)
	}
	validDenom := func(cc *callCtx, d string) string {
		cc.e.g().DeclFun("validDenom", []string{sortStr}, "Bool")
		return fmt.Sprintf("(validDenom %s)", d)
	}
	for _, dec := range []bool{false, true} {
		dec := dec
		P := C
		if dec {
			P = DC
		}
		extRules[P+"Add"] = func(cc *callCtx) ([]string, bool) {
			a, b := cc.arg(0), cc.arg(1)
			cc.e.panicIf(fmt.Sprintf("(not (= %s %s))", den(cc, dec, a), den(cc, dec, b)), "Coin.Add: denom mismatch", cc.ins)
			return []string{cc.def("cadd", cc.e.g().SortOf(cc.resType(0)), mk(cc, dec, den(cc, dec, a), fmt.Sprintf("(+ %s %s)", amt(cc, dec, a), amt(cc, dec, b))))}, true
		}
		extRules[P+"Sub"] = func(cc *callCtx) ([]string, bool) {
			a, b := cc.arg(0), cc.arg(1)
			cc.e.panicIf(fmt.Sprintf("(not (= %s %s))", den(cc, dec, a), den(cc, dec, b)), "Coin.Sub: denom mismatch", cc.ins)
			cc.e.panicIf(fmt.Sprintf("(< (- %s %s) 0)", amt(cc, dec, a), amt(cc, dec, b)), "Coin.Sub: negative coin amount", cc.ins)
			return []string{cc.def("csub", cc.e.g().SortOf(cc.resType(0)), mk(cc, dec, den(cc, dec, a), fmt.Sprintf("(- %s %s)", amt(cc, dec, a), amt(cc, dec, b))))}, true
		}
		extRules[P+"IsZero"] = func(cc *callCtx) ([]string, bool) {
			return []string{fmt.Sprintf("(= %s 0)", amt(cc, dec, cc.arg(0)))}, true
		}
		extRules[P+"IsPositive"] = func(cc *callCtx) ([]string, bool) {
			return []string{fmt.Sprintf("(> %s 0)", amt(cc, dec, cc.arg(0)))}, true
		}
		extRules[P+"IsNegative"] = func(cc *callCtx) ([]string, bool) {
			return []string{fmt.Sprintf("(< %s 0)", amt(cc, dec, cc.arg(0)))}, true
		}
		extRules[P+"IsGTE"] = func(cc *callCtx) ([]string, bool) {
			a, b := cc.arg(0), cc.arg(1)
			cc.e.panicIf(fmt.Sprintf("(not (= %s %s))", den(cc, dec, a), den(cc, dec, b)), "Coin.IsGTE: denom mismatch", cc.ins)
			return []string{cc.def("gte", "Bool", fmt.Sprintf("(>= %s %s)", amt(cc, dec, a), amt(cc, dec, b)))}, true
		}
		extRules[P+"IsLT"] = func(cc *callCtx) ([]string, bool) {
			a, b := cc.arg(0), cc.arg(1)
			cc.e.panicIf(fmt.Sprintf("(not (= %s %s))", den(cc, dec, a), den(cc, dec, b)), "Coin.IsLT: denom mismatch", cc.ins)
			return []string{cc.def("lt", "Bool", fmt.Sprintf("(< %s %s)", amt(cc, dec, a), amt(cc, dec, b)))}, true
		}
		extRules[P+"IsEqual"] = func(cc *callCtx) ([]string, bool) {
			a, b := cc.arg(0), cc.arg(1)
			cc.e.panicIf(fmt.Sprintf("(not (= %s %s))", den(cc, dec, a), den(cc, dec, b)), "Coin.IsEqual: denom mismatch", cc.ins)
			return []string{cc.def("ceq", "Bool", fmt.Sprintf("(= %s %s)", amt(cc, dec, a), amt(cc, dec, b)))}, true
		}
	}
	extRules[C+"AddAmount"] = func(cc *callCtx) ([]string, bool) {
		a := cc.arg(0)
		return []string{cc.def("caa", cc.e.g().SortOf(cc.resType(0)), mk(cc, false, den(cc, false, a), fmt.Sprintf("(+ %s %s)", amt(cc, false, a), cc.arg(1))))}, true
	}
	extRules[C+"SubAmount"] = func(cc *callCtx) ([]string, bool) {
		a := cc.arg(0)
		cc.e.panicIf(fmt.Sprintf("(< (- %s %s) 0)", amt(cc, false, a), cc.arg(1)), "Coin.SubAmount: negative coin amount", cc.ins)
		return []string{cc.def("csa", cc.e.g().SortOf(cc.resType(0)), mk(cc, false, den(cc, false, a), fmt.Sprintf("(- %s %s)", amt(cc, false, a), cc.arg(1))))}, true
	}
	newCoin := func(scale string, dec bool) extRule {
		return func(cc *callCtx) ([]string, bool) {
			d, a := cc.arg(0), cc.arg(1)
			if scale != "" {
				a = fmt.Sprintf("(* %s %s)", a, scale)
			}
			cc.e.panicIf(fmt.Sprintf("(or (< %s 0) (not %s))", a, validDenom(cc, d)), "NewCoin: negative amount or invalid denom", cc.ins)
			return []string{cc.def("nc", cc.e.g().SortOf(cc.resType(0)), mk(cc, dec, d, a))}, true
		}
	}
	extRules[sdkT+".NewCoin"] = newCoin("", false)
	extRules[sdkT+".NewInt64Coin"] = newCoin("", false)
	extRules[sdkT+".NewDecCoinFromDec"] = newCoin("", true)
	extRules[sdkT+".NewDecCoin"] = newCoin(decOne, true)
	extRules[sdkT+".NewInt64DecCoin"] = newCoin(decOne, true)
	extRules[sdkT+".NewDecCoinFromCoin"] = func(cc *callCtx) ([]string, bool) {
		c := cc.arg(0)
		cc.e.panicIf(fmt.Sprintf("(or (< %s 0) (not %s))", amt(cc, false, c), validDenom(cc, den(cc, false, c))), "NewDecCoinFromCoin: invalid coin", cc.ins)
		return []string{cc.def("ndc", cc.e.g().SortOf(cc.resType(0)), mk(cc, true, den(cc, false, c), fmt.Sprintf("(* %s %s)", amt(cc, false, c), decOne)))}, true
	}
	extRules[DC+"TruncateDecimal"] = func(cc *callCtx) ([]string, bool) {
		c := cc.arg(0)
		a := amt(cc, true, c)
		tr := cc.def("trd", "Int", fmt.Sprintf("(tdiv %s %s)", a, decOne))
		whole := mk(cc, false, den(cc, true, c), tr)
		frac := mk(cc, true, den(cc, true, c), fmt.Sprintf("(- %s (* %s %s))", a, tr, decOne))
		// NewCoin inside panics on a negative truncated amount
		cc.e.panicIf(fmt.Sprintf("(< %s 0)", tr), "TruncateDecimal: negative amount", cc.ins)
		return []string{cc.def("trc", cc.e.g().SortOf(cc.resType(0)), whole), cc.def("trf", cc.e.g().SortOf(cc.resType(1)), frac)}, true
	}
	extRules[sdkT+".ParseCoinNormalized"] = func(cc *callCtx) ([]string, bool) {
		// constant argument "<digits><denom>" only
		c, ok := cc.args[0].(*ssa.Const)
		if !ok {
			return nil, false
		}
		s := constantString(c)
		m := regexp.MustCompile(`^([0-9]+)([a-z][a-z0-9/]*)$`).FindStringSubmatch(s)
		if m == nil {
			return nil, false
		}
		return []string{mk(cc, false, cc.e.g().StrLit(m[2]), m[1]), "0"}, true
	}

	// ---- Coins (only the empty and the single-coin shapes are modelled precisely)
	cs := func(e *Enc) string {
		t := e.r.v.lookupType(sdkT + ".Coins")
		return e.g().SortOf(t)
	}
	single := func(cc *callCtx, coin string) string {
		s := cs(cc.e)
		c, _, _ := coinSort(cc.e)
		// sanitized: zero coins are dropped
		return fmt.Sprintf("(ite (= (%s_Amount %s) 0) %s (mk_%s (store %s_arr0 0 %s) 1 false))", c, coin, cc.e.g().EmptySlice(s), s, s, coin)
	}
	extRules[sdkT+".NewCoins"] = func(cc *callCtx) ([]string, bool) {
		s := cs(cc.e)
		n, elems, ok := cc.e.literalSlice(cc.args[0])
		if !ok || n > 1 {
			cc.e.r.errorf("outside subset: NewCoins with more than one coin in %s", cc.e.fn.Name())
			return nil, false
		}
		if n == 0 {
			return []string{cc.e.g().EmptySlice(s)}, true
		}
		c, _, _ := coinSort(cc.e)
		cc.e.panicIf(fmt.Sprintf("(< (%s_Amount %s) 0)", c, elems[0]), "NewCoins: negative coin", cc.ins)
		return []string{cc.def("ncs", s, single(cc, elems[0]))}, true
	}
	extRules["("+sdkT+".Coins).Add"] = func(cc *callCtx) ([]string, bool) {
		s := cs(cc.e)
		c, _, _ := coinSort(cc.e)
		n, elems, ok := cc.e.literalSlice(cc.args[1])
		if !ok || n != 1 {
			cc.e.r.errorf("outside subset: Coins.Add with other than one coin in %s", cc.e.fn.Name())
			return nil, false
		}
		recv := cc.arg(0)
		r := cc.e.havocSort(s, "coinsadd")
		// receiver empty -> {coin} ; receiver single with the same denom -> {sum}; other shapes unspecified (len >= 1)
		cc.e.r.assume(fmt.Sprintf("(=> (= (%s_len %s) 0) (= %s %s))", s, recv, r, single(cc, elems[0])))
		sum := fmt.Sprintf("(mk_%s (%s_Denom %s) (+ (%s_Amount (select (%s_arr %s) 0)) (%s_Amount %s)))", c, c, elems[0], c, s, recv, c, elems[0])
		cc.e.r.assume(fmt.Sprintf("(=> (and (= (%s_len %s) 1) (= (%s_Denom (select (%s_arr %s) 0)) (%s_Denom %s))) (= %s %s))", s, recv, c, s, recv, c, elems[0], r, single(cc, sum)))
		cc.e.r.assume(fmt.Sprintf("(>= (%s_len %s) 0)", s, r))
		return []string{r}, true
	}
	extRules["("+sdkT+".Coins).Empty"] = func(cc *callCtx) ([]string, bool) {
		s := cs(cc.e)
		return []string{fmt.Sprintf("(= (%s_len %s) 0)", s, cc.arg(0))}, true
	}
	extRules["("+sdkT+".Coins).IsZero"] = func(cc *callCtx) ([]string, bool) {
		s := cs(cc.e)
		c, _, _ := coinSort(cc.e)
		a := cc.arg(0)
		r := cc.e.havocSort("Bool", "cz")
		cc.e.r.assume(fmt.Sprintf("(=> (= (%s_len %s) 0) %s)", s, a, r))
		cc.e.r.assume(fmt.Sprintf("(=> (= (%s_len %s) 1) (= %s (= (%s_Amount (select (%s_arr %s) 0)) 0)))", s, a, r, c, s, a))
		return []string{r}, true
	}
}

// coinsShape returns (len, denom, amount) terms of a Coins value (amount/denom meaningful when len == 1)
func coinsShape(e *Enc, coins string) (string, string, string) {
	t := e.r.v.lookupType(sdkT + ".Coins")
	s := e.g().SortOf(t)
	c, _, _ := coinSort(e)
	return fmt.Sprintf("(%s_len %s)", s, coins), fmt.Sprintf("(%s_Denom (select (%s_arr %s) 0))", c, s, coins), fmt.Sprintf("(%s_Amount (select (%s_arr %s) 0))", c, s, coins)
}

func bankRules() {
	// transfer(from, to, coins): error (no change) iff coins invalid or balance insufficient; panic iff module account missing.
	transfer := func(cc *callCtx, from, to, coins string, mint bool, toAccount ...bool) string {
		e := cc.e
		e.ensureState("bank", bankSrt)
		bank := e.getState("bank")
		ln, d, a := coinsShape(e, coins)
		ln = cc.def("tlen", "Int", ln)
		d = cc.def("tden", sortStr, d)
		a = cc.def("tamt", "Int", a)
		err := e.havocSort("Int", "bankerr")
		okc := fmt.Sprintf("(or (= %s 0) (and (= %s 1) (> %s 0) (>= (select (select %s %s) %s) %s)))", ln, ln, a, bank, from, d, a)
		if mint {
			okc = fmt.Sprintf("(or (= %s 0) (and (= %s 1) (> %s 0)))", ln, ln, a)
		}
		if len(toAccount) > 0 && toAccount[0] {
			// SendCoinsFromModuleToAccount refuses recipients on the application's blocked list (module accounts)
			e.g().DeclFun("blockedAddr", []string{sortAddr}, "Bool")
			okc = fmt.Sprintf("(and %s (not (blockedAddr %s)))", okc, to)
		}
		// only the empty and the single-coin shape are specified; for longer coin sets the result is unconstrained
		e.r.assume(fmt.Sprintf("(=> (<= %s 1) (= (= %s 0) %s))", ln, err, okc))
		var nb string
		if mint {
			nb = fmt.Sprintf("(store %s %s (store (select %s %s) %s (+ (select (select %s %s) %s) %s)))", bank, to, bank, to, d, bank, to, d, a)
		} else {
			b1 := cc.def("bank1", bankSrt, fmt.Sprintf("(store %s %s (store (select %s %s) %s (- (select (select %s %s) %s) %s)))", bank, from, bank, from, d, bank, from, d, a))
			nb = fmt.Sprintf("(store %s %s (store (select %s %s) %s (+ (select (select %s %s) %s) %s)))", b1, to, b1, to, d, b1, to, d, a)
		}
		many := e.havocSort(bankSrt, "bankmany")
		e.setState("bank", bankSrt, fmt.Sprintf("(ite (or (not (= %s 0)) (= %s 0)) %s (ite (= %s 1) %s %s))", err, ln, bank, ln, nb, many))
		return err
	}
	modAddr := func(cc *callCtx, i int) string {
		cc.e.g().DeclFun("moduleAddr", []string{sortStr}, sortAddr)
		// module account must exist (maccPerms in app/app.go), otherwise the bank keeper panics
		if c, ok := cc.args[i].(*ssa.Const); ok {
			name := constantString(c)
			if !cc.e.r.v.moduleAccounts()[name] {
				cc.e.panicIf("true", "bank: module account "+name+" does not exist (not in maccPerms)", cc.ins)
			}
		} else if name, ok := cc.e.g().litOf(cc.arg(i)); ok {
			if !cc.e.r.v.moduleAccounts()[name] {
				cc.e.panicIf("true", "bank: module account "+name+" does not exist (not in maccPerms)", cc.ins)
			}
		} else {
			// module name is a parameter: existence of its account is an uninterpreted fact about the name
			cc.e.g().DeclFun("moduleExists", []string{sortStr}, "Bool")
			cc.e.panicIf(fmt.Sprintf("(not (moduleExists %s))", cc.arg(i)), "bank: module account of a non-constant module name does not exist", cc.ins)
		}
		return fmt.Sprintf("(moduleAddr %s)", cc.arg(i))
	}
	for _, iface := range []string{"BankKeeper"} {
		for _, mod := range []string{"node", "sao", "order", "market", "did", "model"} {
			p := "(" + repoMod + "/x/" + mod + "/types." + iface + ")."
			extRules[p+"SendCoinsFromAccountToModule"] = func(cc *callCtx) ([]string, bool) {
				return []string{transfer(cc, cc.arg(2), modAddr(cc, 3), cc.arg(4), false)}, true
			}
			extRules[p+"SendCoinsFromModuleToAccount"] = func(cc *callCtx) ([]string, bool) {
				return []string{transfer(cc, modAddr(cc, 2), cc.arg(3), cc.arg(4), false, true)}, true
			}
			extRules[p+"SendCoinsFromModuleToModule"] = func(cc *callCtx) ([]string, bool) {
				return []string{transfer(cc, modAddr(cc, 2), modAddr(cc, 3), cc.arg(4), false)}, true
			}
			extRules[p+"SendCoins"] = func(cc *callCtx) ([]string, bool) {
				return []string{transfer(cc, cc.arg(2), cc.arg(3), cc.arg(4), false)}, true
			}
			extRules[p+"MintCoins"] = func(cc *callCtx) ([]string, bool) {
				return []string{transfer(cc, "addr_nil", modAddr(cc, 2), cc.arg(3), true)}, true
			}
			extRules[p+"GetBalance"] = func(cc *callCtx) ([]string, bool) {
				e := cc.e
				e.ensureState("bank", bankSrt)
				c, _, _ := coinSort(e)
				return []string{cc.def("bal", c, fmt.Sprintf("(mk_%s %s (select (select %s %s) %s))", c, cc.arg(3), e.getState("bank"), cc.arg(2), cc.arg(3)))}, true
			}
			extRules[p+"SpendableCoins"] = nil
			delete(extRules, p+"SpendableCoins")
		}
	}
	for _, mod := range []string{"node", "sao", "order", "market", "did", "model"} {
		p := "(" + repoMod + "/x/" + mod + "/types.AccountKeeper)."
		extRules[p+"GetModuleAccount"] = func(cc *callCtx) ([]string, bool) {
			cc.e.modAccts()[cc.val] = cc.arg(2)
			return []string{"0"}, true
		}
		extRules["("+repoMod+"/x/"+mod+"/types.BankKeeper).GetAllBalances"] = func(cc *callCtx) ([]string, bool) {
			return []string{cc.e.havoc(cc.resType(0), "allbal")}, true
		}
		extRules[p+"GetModuleAddress"] = func(cc *callCtx) ([]string, bool) {
			cc.e.g().DeclFun("moduleAddr", []string{sortStr}, sortAddr)
			return []string{fmt.Sprintf("(moduleAddr %s)", cc.arg(1))}, true
		}
		s := "(" + repoMod + "/x/" + mod + "/types.StakingKeeper)."
		extRules[s+"GetDelegation"] = func(cc *callCtx) ([]string, bool) {
			e := cc.e
			g := e.g()
			g.DeclFun("hasDelegation", []string{sortAddr, sortAddr}, "Bool")
			g.DeclFun("delegationShares", []string{sortAddr, sortAddr}, "Int")
			g.DeclFun("valAddrStr", []string{sortAddr}, sortStr)
			ds := g.SortOf(cc.resType(0))
			d, v := cc.arg(2), cc.arg(3)
			del := e.havocSort(ds, "delegation")
			found := cc.def("hasdel", "Bool", fmt.Sprintf("(hasDelegation %s %s)", d, v))
			e.r.assume(fmt.Sprintf("(=> %s (and (= (%s_Shares %s) (delegationShares %s %s)) (= (%s_DelegatorAddress %s) (addrStr %s)) (= (%s_ValidatorAddress %s) (valAddrStr %s))))", found, ds, del, d, v, ds, del, d, ds, del, v))
			return []string{del, found}, true
		}
		extRules[s+"GetValidator"] = func(cc *callCtx) ([]string, bool) {
			e := cc.e
			g := e.g()
			g.DeclFun("hasValidator", []string{sortAddr}, "Bool")
			g.DeclFun("validatorShares", []string{sortAddr}, "Int")
			vs := g.SortOf(cc.resType(0))
			v := cc.arg(2)
			val := e.havocSort(vs, "validator")
			found := cc.def("hasval", "Bool", fmt.Sprintf("(hasValidator %s)", v))
			e.r.assume(fmt.Sprintf("(=> %s (= (%s_DelegatorShares %s) (validatorShares %s)))", found, vs, val, v))
			return []string{val, found}, true
		}
		extRules[s+"GetDelegatorDelegations"] = func(cc *callCtx) ([]string, bool) {
			e := cc.e
			g := e.g()
			ss := g.SortOf(cc.resType(0))
			ds := g.sliceElem[ss]
			g.DeclFun("hasDelegation", []string{sortAddr, sortAddr}, "Bool")
			g.DeclFun("delegationShares", []string{sortAddr, sortAddr}, "Int")
			g.DeclFun("valAddrOf", []string{sortStr}, sortAddr)
			g.DeclFun("validValAddr", []string{sortStr}, "Bool")
			fn := "delegationsOf"
			g.DeclFun(fn, []string{sortAddr}, ss)
			r := cc.def("dels", ss, fmt.Sprintf("(%s %s)", fn, cc.arg(2)))
			e.typeInv(r, cc.resType(0), 0)
			// every returned entry is a delegation of this delegator
			e.r.assume(fmt.Sprintf("(forall ((i!d Int)) (! (=> (and (<= 0 i!d) (< i!d (%s_len %s))) (and (= (%s_DelegatorAddress (select (%s_arr %s) i!d)) (addrStr %s)) (validValAddr (%s_ValidatorAddress (select (%s_arr %s) i!d))) (hasDelegation %s (valAddrOf (%s_ValidatorAddress (select (%s_arr %s) i!d)))) (= (%s_Shares (select (%s_arr %s) i!d)) (delegationShares %s (valAddrOf (%s_ValidatorAddress (select (%s_arr %s) i!d))))))) :pattern ((select (%s_arr %s) i!d))))",
				ss, r, ds, ss, r, cc.arg(2), ds, ss, r, cc.arg(2), ds, ss, r, ds, ss, r, cc.arg(2), ds, ss, r, ss, r))
			return []string{r}, true
		}
		extRules[s+"GetValidatorDelegations"] = func(cc *callCtx) ([]string, bool) {
			e := cc.e
			g := e.g()
			ss := g.SortOf(cc.resType(0))
			ds := g.sliceElem[ss]
			g.DeclFun("hasDelegation", []string{sortAddr, sortAddr}, "Bool")
			g.DeclFun("delegationShares", []string{sortAddr, sortAddr}, "Int")
			g.DeclFun("valAddrStr", []string{sortAddr}, sortStr)
			g.DeclFun("delegationsTo", []string{sortAddr}, ss)
			r := cc.def("vdels", ss, fmt.Sprintf("(delegationsTo %s)", cc.arg(2)))
			e.typeInv(r, cc.resType(0), 0)
			// every returned entry is a delegation to this validator by a well-formed delegator address
			e.r.assume(fmt.Sprintf("(forall ((i!d Int)) (! (=> (and (<= 0 i!d) (< i!d (%s_len %s))) (and (= (%s_ValidatorAddress (select (%s_arr %s) i!d)) (valAddrStr %s)) (validAddr (%s_DelegatorAddress (select (%s_arr %s) i!d))) (hasDelegation (addrOf (%s_DelegatorAddress (select (%s_arr %s) i!d))) %s) (= (%s_Shares (select (%s_arr %s) i!d)) (delegationShares (addrOf (%s_DelegatorAddress (select (%s_arr %s) i!d))) %s)))) :pattern ((select (%s_arr %s) i!d))))",
				ss, r, ds, ss, r, cc.arg(2), ds, ss, r, ds, ss, r, cc.arg(2), ds, ss, r, ds, ss, r, cc.arg(2), ss, r))
			return []string{r}, true
		}
		// Delegation(ctx, del, val) returns the DelegationI interface: an opaque handle whose shares are those of the pair
		// (nil when there is no such delegation: a later GetShares() panics)
		extRules[s+"Delegation"] = func(cc *callCtx) ([]string, bool) {
			e := cc.e
			g := e.g()
			g.DeclFun("hasDelegation", []string{sortAddr, sortAddr}, "Bool")
			g.DeclFun("delegationShares", []string{sortAddr, sortAddr}, "Int")
			g.DeclFun("dlgShares", []string{"Int"}, "Int")
			h := e.havocSort("Int", "dlg")
			e.r.assume(fmt.Sprintf("(= (= %s 0) (not (hasDelegation %s %s)))", h, cc.arg(2), cc.arg(3)))
			e.r.assume(fmt.Sprintf("(=> (not (= %s 0)) (= (dlgShares %s) (delegationShares %s %s)))", h, h, cc.arg(2), cc.arg(3)))
			return []string{h}, true
		}
		extRules[s+"BondDenom"] = func(cc *callCtx) ([]string, bool) {
			cc.e.g().DeclFun("BondDenom", nil, sortStr)
			return []string{"BondDenom"}, true
		}
	}
}

func init() {
	extRules["(github.com/cosmos/cosmos-sdk/x/staking/types.DelegationI).GetShares"] = func(cc *callCtx) ([]string, bool) {
		cc.e.g().DeclFun("dlgShares", []string{"Int"}, "Int")
		cc.e.panicIf(fmt.Sprintf("(= %s 0)", cc.arg(0)), "DelegationI.GetShares on a nil delegation", cc.ins)
		return []string{fmt.Sprintf("(dlgShares %s)", cc.arg(0))}, true
	}
}

func init() {
	// sao-did parser.Parse(did): a fresh *DID whose Method and ID are functions of the string (uninterpreted didMethod/didId)
	extRules["github.com/SaoNetwork/sao-did/parser.Parse"] = func(cc *callCtx) ([]string, bool) {
		e := cc.e
		g := e.g()
		pt, ok := cc.sig.Results().At(0).Type().(*types.Pointer)
		if !ok {
			return nil, false
		}
		g.DeclFun("didMethod", []string{sortStr}, sortStr)
		g.DeclFun("didId", []string{sortStr}, sortStr)
		g.DeclFun("didParses", []string{sortStr}, "Bool")
		ds := g.SortOf(pt.Elem())
		st, _ := types.Unalias(pt.Elem()).Underlying().(*types.Struct)
		if st == nil {
			return nil, false
		}
		v := e.havoc(pt.Elem(), "did")
		for i := 0; i < st.NumFields(); i++ {
			switch st.Field(i).Name() {
			case "Method":
				e.r.assume(fmt.Sprintf("(= %s (didMethod %s))", g.FieldSel(ds, st, i, v), cc.arg(0)))
			case "ID":
				e.r.assume(fmt.Sprintf("(= %s (didId %s))", g.FieldSel(ds, st, i, v), cc.arg(0)))
			}
		}
		ref := e.allocRef()
		h := e.heapFor(pt.Elem())
		e.setState(h, "", fmt.Sprintf("(store %s %s %s)", e.getState(h), ref, v))
		err := e.havocSort("Int", "perr")
		e.r.assume(fmt.Sprintf("(= (= %s 0) (didParses %s))", err, cc.arg(0)))
		return []string{fmt.Sprintf("(ite (= %s 0) %s 0)", err, ref), err}, true
	}
}

var maccRe = regexp.MustCompile(`(?m)^\s*(\w+)\.ModuleName:\s`)

func (v *Verifier) moduleAccounts() map[string]bool {
	// read maccPerms from app/app.go: "<pkg>.ModuleName: ..." entries, resolved to the ModuleName constants
	out := map[string]bool{}
	p := v.allPkgs[repoMod+"/app"]
	if p == nil {
		// app package not loaded: fall back to the source text and the repo's module names
		src, err := readFile(v.repo + "/app/app.go")
		if err != nil {
			return out
		}
		i := strings.Index(src, "maccPerms = map[string][]string{")
		if i < 0 {
			return out
		}
		j := strings.Index(src[i:], "\n\t}")
		block := src[i : i+j]
		for _, m := range maccRe.FindAllStringSubmatch(block, -1) {
			alias := m[1]
			name := strings.TrimSuffix(strings.TrimSuffix(alias, "types"), "module")
			out[name] = true
		}
		// authtypes.FeeCollectorName etc. are irrelevant here
		return out
	}
	return out
}

func storeRules() {
	// handled in store.go
}

func miscRules() {
	extRules["fmt.Sprintf"] = func(cc *callCtx) ([]string, bool) {
		e := cc.e
		n, elems, ok := e.literalSlice(cc.args[1])
		if !ok {
			e.g().DeclFun("sprintf_dyn", []string{sortStr, "Slice_Any"}, sortStr)
			return []string{fmt.Sprintf("(sprintf_dyn %s %s)", cc.arg(0), cc.arg(1))}, true
		}
		fn := fmt.Sprintf("sprintf%d", n)
		args := []string{sortStr}
		for i := 0; i < n; i++ {
			args = append(args, sortAny)
		}
		e.g().DeclFun(fn, args, sortStr)
		return []string{cc.def("spf", sortStr, fmt.Sprintf("(%s %s)", fn, strings.Join(append([]string{cc.arg(0)}, elems...), " ")))}, true
	}
	extRules["fmt.Sprint"] = func(cc *callCtx) ([]string, bool) {
		e := cc.e
		e.g().DeclFun("sprint_dyn", []string{"Slice_Any"}, sortStr)
		return []string{fmt.Sprintf("(sprint_dyn %s)", cc.arg(0))}, true
	}
	extRules["strings.Contains"] = func(cc *callCtx) ([]string, bool) {
		return []string{cc.def("sc", "Bool", fmt.Sprintf("(strcontains %s %s)", cc.arg(0), cc.arg(1)))}, true
	}
	extRules["strings.HasPrefix"] = func(cc *callCtx) ([]string, bool) {
		return []string{cc.def("hp", "Bool", fmt.Sprintf("(strhasprefix %s %s)", cc.arg(0), cc.arg(1)))}, true
	}
	extRules["strings.ToLower"] = func(cc *callCtx) ([]string, bool) {
		cc.e.g().DeclFun("strlower", []string{sortStr}, sortStr)
		return []string{fmt.Sprintf("(strlower %s)", cc.arg(0))}, true
	}
	extRules["strings.Split"] = func(cc *callCtx) ([]string, bool) {
		e := cc.e
		ss := e.g().SortOf(cc.resType(0))
		e.g().DeclFun("strsplit", []string{sortStr, sortStr}, ss)
		r := cc.def("split", ss, fmt.Sprintf("(strsplit %s %s)", cc.arg(0), cc.arg(1)))
		e.r.assume(fmt.Sprintf("(and (>= (%s_len %s) 1) (not (%s_nil %s)))", ss, r, ss, r))
		// no separator occurrence <=> exactly one part equal to the input
		e.r.assume(fmt.Sprintf("(=> (not (strcontains %s %s)) (and (= (%s_len %s) 1) (= (select (%s_arr %s) 0) %s)))", cc.arg(0), cc.arg(1), ss, r, ss, r, cc.arg(0)))
		e.r.assume(fmt.Sprintf("(=> (and (strcontains %s %s) (> (strlen %s) 0)) (>= (%s_len %s) 2))", cc.arg(0), cc.arg(1), cc.arg(1), ss, r))
		return []string{r}, true
	}
	// math/big with value semantics through the heap of big.Int
	bigBin := func(op string, divz bool) extRule {
		return func(cc *callCtx) ([]string, bool) {
			e := cc.e
			z, x, y := cc.loc(0), cc.loc(1), cc.loc(2)
			xv, _ := e.load(x)
			yv, _ := e.load(y)
			if divz {
				e.panicIf(fmt.Sprintf("(= %s 0)", yv), "big.Int: division by zero", cc.ins)
			}
			e.store(z, cc.def("big", "Int", fmt.Sprintf("(%s %s %s)", op, xv, yv)))
			return []string{cc.arg(0)}, true
		}
	}
	B := "(math/big.Int)."
	extRules[B+"Add"] = bigBin("+", false)
	extRules[B+"Sub"] = bigBin("-", false)
	extRules[B+"Mul"] = bigBin("*", false)
	extRules[B+"Mod"] = bigBin("mod", true) // Euclidean modulus
	extRules[B+"Div"] = bigBin("div", true) // Euclidean division
	extRules[B+"Quo"] = bigBin("tdiv", true)
	extRules[B+"Int64"] = func(cc *callCtx) ([]string, bool) {
		v, _ := cc.e.load(cc.loc(0))
		return []string{cc.def("bi64", "Int", fmt.Sprintf("(wrap_i64 %s)", v))}, true
	}
	extRules[B+"Sign"] = func(cc *callCtx) ([]string, bool) {
		v, _ := cc.e.load(cc.loc(0))
		return []string{cc.def("bsgn", "Int", fmt.Sprintf("(ite (> %s 0) 1 (ite (< %s 0) (- 1) 0))", v, v))}, true
	}
	extRules[B+"Set"] = func(cc *callCtx) ([]string, bool) {
		v, _ := cc.e.load(cc.loc(1))
		cc.e.store(cc.loc(0), v)
		return []string{cc.arg(0)}, true
	}
	extRules[B+"SetBytes"] = func(cc *callCtx) ([]string, bool) {
		e := cc.e
		bs := e.g().SortOf(cc.args[1].Type())
		e.g().DeclFun("bigFromBytes", []string{bs}, "Int")
		v := cc.def("bfb", "Int", fmt.Sprintf("(bigFromBytes %s)", cc.arg(1)))
		e.r.assume(fmt.Sprintf("(>= %s 0)", v))
		e.store(cc.loc(0), v)
		return []string{cc.arg(0)}, true
	}
	extRules[B+"Rsh"] = func(cc *callCtx) ([]string, bool) {
		e := cc.e
		xv, _ := e.load(cc.loc(1))
		e.g().DeclFun("pow2", []string{"Int"}, "Int")
		e.g().Axiom("pow2.pos", "(forall ((n Int)) (! (>= (pow2 n) 1) :pattern ((pow2 n))))")
		// arithmetic shift = floor division by 2^n
		e.store(cc.loc(0), cc.def("rsh", "Int", divTerm("div", xv, fmt.Sprintf("(pow2 %s)", cc.arg(2)))))
		return []string{cc.arg(0)}, true
	}
	extRules["(math/big.Float).SetInt"] = func(cc *callCtx) ([]string, bool) {
		v, _ := cc.e.load(cc.loc(1))
		cc.e.store(cc.loc(0), v)
		return []string{cc.arg(0)}, true
	}
	extRules["(math/big.Float).Float64"] = func(cc *callCtx) ([]string, bool) {
		v, _ := cc.e.load(cc.loc(0))
		acc := cc.e.havoc(cc.resType(1), "acc")
		return []string{cc.def("bf64", sortF64, fmt.Sprintf("((_ to_fp 11 53) RNE (to_real %s))", v)), acc}, true
	}
	one := "((_ to_fp 11 53) RNE 1.0)"
	zero := "((_ to_fp 11 53) RNE 0.0)"
	for _, fn := range []string{"Log2", "Log10", "Ceil", "Floor", "Sqrt"} {
		fn := fn
		extRules["math."+fn] = func(cc *callCtx) ([]string, bool) {
			g := cc.e.g()
			g.DeclFun("f64_"+fn, []string{sortF64}, sortF64)
			big := "((_ to_fp 11 53) RNE 2000.0)"
			switch fn {
			case "Log2", "Log10":
				// for finite x >= 1: 0 <= log(x) <= 1024 < 2000
				g.Axiom("math."+fn+".range", fmt.Sprintf("(forall ((x %s)) (! (=> (and (fp.geq x %s) (not (fp.isInfinite x))) (and (fp.geq (f64_%s x) %s) (fp.leq (f64_%s x) %s))) :pattern ((f64_%s x))))", sortF64, one, fn, zero, fn, big, fn))
			case "Ceil", "Floor":
				g.Axiom("math."+fn+".range", fmt.Sprintf("(forall ((x %s)) (! (=> (and (fp.geq x %s) (fp.leq x %s)) (and (fp.geq (f64_%s x) %s) (fp.leq (f64_%s x) ((_ to_fp 11 53) RNE 2001.0)))) :pattern ((f64_%s x))))", sortF64, zero, big, fn, zero, fn, fn))
			case "Sqrt":
				g.Axiom("math."+fn+".nonneg", fmt.Sprintf("(forall ((x %s)) (! (=> (fp.geq x %s) (fp.geq (f64_%s x) %s)) :pattern ((f64_%s x))))", sortF64, zero, fn, zero, fn))
			}
			return []string{cc.def("m"+fn, sortF64, fmt.Sprintf("(f64_%s %s)", fn, cc.arg(0)))}, true
		}
	}
	extRules["math.Pow10"] = func(cc *callCtx) ([]string, bool) {
		g := cc.e.g()
		g.DeclFun("f64_Pow10", []string{"Int"}, sortF64)
		g.Axiom("math.Pow10.ge1", fmt.Sprintf("(forall ((n Int)) (! (=> (>= n 0) (fp.geq (f64_Pow10 n) %s)) :pattern ((f64_Pow10 n))))", one))
		return []string{cc.def("mPow10", sortF64, fmt.Sprintf("(f64_Pow10 %s)", cc.arg(0)))}, true
	}
	extRules["math/big.NewInt"] = func(cc *callCtx) ([]string, bool) {
		e := cc.e
		ref := e.allocRef()
		h := e.heapFor(cc.sig.Results().At(0).Type().(*types.Pointer).Elem())
		e.setState(h, "", fmt.Sprintf("(store %s %s %s)", e.getState(h), ref, cc.arg(0)))
		return []string{ref}, true
	}
}

var modAcctTab = map[*Enc]map[ssa.Value]string{}

func (e *Enc) modAccts() map[ssa.Value]string {
	m := modAcctTab[e]
	if m == nil {
		m = map[ssa.Value]string{}
		modAcctTab[e] = m
	}
	return m
}

func init() {
	getAddr := func(cc *callCtx) ([]string, bool) {
		name, ok := cc.e.modAccts()[cc.args[0]]
		if !ok {
			return nil, false
		}
		cc.e.g().DeclFun("moduleAddr", []string{sortStr}, sortAddr)
		return []string{fmt.Sprintf("(moduleAddr %s)", name)}, true
	}
	extRules["(github.com/cosmos/cosmos-sdk/x/auth/types.ModuleAccountI).GetAddress"] = getAddr
	extRules["(github.com/cosmos/cosmos-sdk/x/auth/types.AccountI).GetAddress"] = getAddr
}

func readFile(p string) (string, error) {
	b, err := osReadFile(p)
	return string(b), err
}
