package main

import (
	"context"
	"encoding/json"
	"flag"
	"fmt"
	"os"
	"os/exec"
	"path/filepath"
	"regexp"
	"runtime"
	"sort"
	"strings"
	"time"
)

func main() {
	if len(os.Args) < 2 {
		fmt.Fprintln(os.Stderr, "usage: govc check|list ...")
		os.Exit(2)
	}
	switch os.Args[1] {
	case "check":
		os.Exit(cmdCheck(os.Args[2:]))
	default:
		fmt.Fprintln(os.Stderr, "unknown command")
		os.Exit(2)
	}
}

type knownFinding struct {
	Kind       string // finding | fixed
	Property   string
	Obligation string
	Only       string // optional regexp every hit of a static obligation must match for the listing to apply
	Text       string
}

func loadKnown(path string) []knownFinding {
	var out []knownFinding
	b, err := os.ReadFile(path)
	if err != nil {
		return nil
	}
	for _, line := range strings.Split(string(b), "\n") {
		line = strings.TrimSpace(line)
		if line == "" || strings.HasPrefix(line, "#") {
			continue
		}
		kf := knownFinding{}
		switch {
		case strings.HasPrefix(line, "finding:"):
			kf.Kind = "finding"
			line = strings.TrimSpace(strings.TrimPrefix(line, "finding:"))
		case strings.HasPrefix(line, "fixed:"):
			kf.Kind = "fixed"
			line = strings.TrimSpace(strings.TrimPrefix(line, "fixed:"))
		default:
			continue
		}
		for _, f := range strings.Fields(line) {
			if strings.HasPrefix(f, "property=") {
				kf.Property = strings.TrimPrefix(f, "property=")
			}
			if strings.HasPrefix(f, "obligation=") {
				kf.Obligation = strings.TrimPrefix(f, "obligation=")
			}
			if strings.HasPrefix(f, "only=") {
				kf.Only = strings.TrimPrefix(f, "only=")
			}
		}
		kf.Text = line
		out = append(out, kf)
	}
	return out
}

// the first segment of a footprint detail is a count ("12 prefixes written by module node"), not a hit
var staticPreambleRe = regexp.MustCompile(`^\d+ prefixes written by module \w+$`)

func oblServes(o *Obligation, prop string) bool {
	if prop == "" {
		return true
	}
	if len(o.Tags) == 0 {
		return true
	}
	for _, t := range o.Tags {
		if t == prop || strings.HasPrefix(t, prop+".") {
			return true
		}
	}
	return false
}

func cmdCheck(args []string) int {
	fs := flag.NewFlagSet("check", flag.ExitOnError)
	prop := fs.String("prop", "", "property id (C07); empty = all contracts")
	tier := fs.String("tier", "quick", "quick|thorough")
	evidence := fs.String("evidence", "", "evidence file to write")
	fnRe := fs.String("fn", "", "only functions matching this regexp")
	repo := fs.String("repo", "/repo", "repository root")
	verifDir := fs.String("verif", "/verif", "verif root")
	keep := fs.String("keep", "", "directory to keep SMT files in (default: temp, removed)")
	timeout := fs.Int("timeout", 0, "per-solver timeout in seconds (default quick 20, thorough 60)")
	verbose := fs.Bool("v", false, "verbose")
	obRe := fs.String("ob", "", "debugging: only obligations whose name matches this regexp (never used by ./check)")
	fs.BoolVar(&debugCoverBlocks, "coverblocks", false, "debugging: a reachability (vacuity) obligation for every block that holds a call")
	fs.BoolVar(&debugSplit, "split", false, "debugging: split postconditions into their top-level conjuncts")
	fs.Parse(args)
	t0 := time.Now()
	if *timeout == 0 {
		*timeout = 20
		if *tier == "thorough" {
			*timeout = 60
		}
	}
	// a machine that is busy with other work (load average above 3/4 of the cores) gets proportionally longer solver
	// budgets, up to 3x: a timeout is "undecided", and undecided is reported, so timeouts must not depend on the neighbours
	if b, err := os.ReadFile("/proc/loadavg"); err == nil {
		var l1 float64
		fmt.Sscanf(string(b), "%f", &l1)
		if f := l1 / (0.75 * float64(runtime.NumCPU())); f > 1 {
			if f > 3 {
				f = 3
			}
			*timeout = int(float64(*timeout)*f + 0.5)
		}
	}
	replayRepo = *repo
	specs, err := LoadSpecs(*repo)
	if err != nil {
		fmt.Println("spec error:", err)
		return 2
	}
	// select contracts and packages
	var fre *regexp.Regexp
	if *fnRe != "" {
		fre = regexp.MustCompile(*fnRe)
	}
	var selected []*Contract
	pkgSet := map[string]bool{}
	for _, k := range sortedKeys(specs.Contracts) {
		ct := specs.Contracts[k]
		if !ct.servesProp(*prop) {
			continue
		}
		if fre != nil && !fre.MatchString(ct.Key) {
			continue
		}
		selected = append(selected, ct)
		pkgSet[ct.Pkg] = true
	}
	if len(selected) == 0 && *prop != "C01" && *prop != "C03" && *prop != "C18" {
		fmt.Printf("no contracts serve property %q\n", *prop)
		return 2
	}
	var patterns []string
	for _, m := range []string{"node", "order", "model", "market", "did", "sao"} {
		pkgSet[repoMod+"/x/"+m+"/keeper"] = true
		pkgSet[repoMod+"/x/"+m] = true
	}
	for p := range pkgSet {
		patterns = append(patterns, p)
	}
	sort.Strings(patterns)
	v, err := NewVerifier(*repo, patterns)
	if err != nil {
		// a tree that does not load cannot be verified: report as violation without input
		fmt.Println("load error:", err)
		return reportLoadFailure(*prop, *verifDir, *evidence, *tier, err, t0)
	}
	v.specs = specs
	for _, k := range loadKnown(filepath.Join(*verifDir, "known_findings.txt")) {
		if k.Kind == "finding" {
			v.knownPatterns = append(v.knownPatterns, k.Obligation)
		}
	}
	tLoad := time.Since(t0).Seconds()

	var obls []*Obligation
	var funcErrs []string
	var fnNames []string
	var trustedUsed []string
	var abstractedClosures []string // loop-carrying closures replaced by their write set: their bodies carry no obligations
	done := map[string]bool{}
	// worklist: functions carrying clauses of the property, then (transitively) every callee whose contract was used at a
	// call site. A callee's contract is an assumption of the caller's proof whatever its tags, so all of its obligations
	// are discharged in this run too.
	type workItem struct {
		ct  *Contract
		all bool
	}
	var work []workItem
	for _, ct := range selected {
		work = append(work, workItem{ct, false})
	}
	for len(work) > 0 {
		it := work[0]
		work = work[1:]
		ct := it.ct
		if done[ct.Key] {
			continue
		}
		done[ct.Key] = true
		if ct.Trusted {
			trustedUsed = append(trustedUsed, ct.Key)
			continue
		}
		res := v.VerifyFunc(ct)
		fnNames = append(fnNames, ct.Key)
		for _, e := range res.Errs {
			funcErrs = append(funcErrs, ct.Key+": "+e)
		}
		if res.Root != nil {
			for _, a := range res.Root.abstracted {
				abstractedClosures = appendUnique(abstractedClosures, a+" (called from "+ct.Key+")")
			}
			for _, o := range res.Root.obls {
				if it.all || oblServes(o, *prop) {
					obls = append(obls, o)
				}
			}
			if fre == nil {
				for _, ck := range sortedKeys(v.callees[res.Root]) {
					if !done[ck] {
						if cct := specs.Contracts[ck]; cct != nil {
							work = append(work, workItem{cct, true})
						}
					}
				}
			}
		}
	}
	sort.Strings(fnNames)
	if *prop == "C01" || *prop == "C03" {
		dets, trNames := v.detObligations(*prop)
		for _, d := range dets {
			o := &Obligation{Name: d.Name, Kind: "frame.det", Tags: d.Tags, Src: "transition closure is independent of non-consensus inputs: " + d.Detail, Goal: "true", Static: "proved", StaticDetail: d.Detail}
			if !d.OK {
				o.Static = "failed"
			}
			obls = append(obls, o)
		}
		fnNames = append(fnNames, trNames...)
	}
	if *prop == "C18" || *prop == "" {
		for _, d := range v.genesisObligations() {
			o := &Obligation{Name: d.Name, Kind: "frame.genesis", Tags: d.Tags, Src: "every store prefix the module writes is exported and re-imported: " + d.Detail, Goal: "true", Static: "proved", StaticDetail: d.Detail}
			if !d.OK {
				o.Static = "failed"
			}
			obls = append(obls, o)
		}
	}
	if *prop == "C17" || *prop == "" {
		// ghost axioms backed by a Lean proof (tag lean.<File>): the proof is re-checked on every run
		for _, ax := range specs.Axioms {
			for _, tg := range ax.Tags {
				if !strings.HasPrefix(tg, "lean.") {
					continue
				}
				file := filepath.Join(*verifDir, "lemmas", strings.TrimPrefix(tg, "lean.")+".lean")
				ok, detail := checkLean(file)
				o := &Obligation{Name: "lemma@" + ax.Name + "#lean", Kind: "lemma", Tags: []string{"C17." + ax.Name}, Src: "axiom " + ax.Name + " is a theorem: " + file + " checks with lean (Mathlib), no sorry",
					Goal: "true", Static: "proved", StaticDetail: detail}
				if !ok {
					o.Static = "failed"
				}
				obls = append(obls, o)
			}
		}
	}
	if *obRe != "" {
		ore := regexp.MustCompile(*obRe)
		var f []*Obligation
		for _, o := range obls {
			if ore.MatchString(o.Name) {
				f = append(f, o)
			}
		}
		obls = f
	}
	tGen := time.Since(t0).Seconds() - tLoad
	dir := *keep
	if dir == "" {
		dir, _ = os.MkdirTemp("", "govc-smt-")
		defer os.RemoveAll(dir)
	}
	results := v.solveAll(obls, dir, *timeout, 6)
	// second chance for undecided obligations: the first pass runs many solver processes at once, so an answer that needs a
	// few seconds alone can miss the timeout under load. Undecided ones are re-run two at a time with three times the budget;
	// only what is still undecided then is reported.
	var retry []int
	for i, r := range results {
		if r.Status == "unknown" && r.Obl.Static == "" && !v.isKnownFinding(r.Obl.Name) {
			retry = append(retry, i)
		}
	}
	if len(retry) > 0 && len(retry) <= 40 {
		var ro []*Obligation
		for _, i := range retry {
			ro = append(ro, results[i].Obl)
		}
		rr := v.solveAll(ro, dir, *timeout*3, 2)
		for k, i := range retry {
			rr[k].Secs += results[i].Secs
			rr[k].Tried = append(append([]string{}, results[i].Tried...), append([]string{"retry:"}, rr[k].Tried...)...)
			results[i] = rr[k]
		}
	}

	reg := loadRegistry(*verifDir)
	known := loadKnown(filepath.Join(*verifDir, "known_findings.txt"))
	// a listed finding is matched by obligation name whatever property is being checked: the failing clause of a callee
	// shows up in every property whose proof uses that callee's contract
	var knownList []knownFinding
	for _, k := range known {
		if k.Kind == "finding" {
			knownList = append(knownList, k)
		}
	}
	printedKnown := map[string]bool{}
	// A finding on a static (frame) obligation may carry only=<regexp>: the listing then covers the obligation only while
	// every individual hit of the analysis matches the regexp; a hit that does not (another variable, another prefix) is a
	// different violation of the same property and is reported.
	matchKnown := func(name string, o *Obligation, detail string) (knownFinding, bool) {
		for _, k := range knownList {
			pat := "^" + strings.ReplaceAll(regexp.QuoteMeta(k.Obligation), `\*`, ".*") + "$"
			if ok, _ := regexp.MatchString(pat, name); ok {
				if k.Only != "" && o != nil && o.Static != "" {
					re, err := regexp.Compile(k.Only)
					all := err == nil
					for _, h := range strings.Split(detail, "; ") {
						h = strings.TrimSpace(h)
						if h == "" || staticPreambleRe.MatchString(h) {
							continue
						}
						if all && !re.MatchString(h) {
							all = false
						}
					}
					if !all {
						continue
					}
				}
				return k, true
			}
		}
		return knownFinding{}, false
	}
	nProved, nKnown := 0, 0
	var solverSecs float64
	bySolver := map[string]int{}
	var violations []string
	var samples []map[string]interface{}
	replayDir := filepath.Join(*verifDir, "replays", *prop)
	exit := 0
	for _, r := range results {
		solverSecs += r.Secs
		if *verbose {
			fmt.Printf("  %-8s %-70s %s\n", r.Status, r.Obl.Name, strings.Join(r.Tried, " "))
		}
		if len(samples) < 6 && r.Status == "proved" {
			samples = append(samples, map[string]interface{}{"obligation": r.Obl.Name, "kind": r.Obl.Kind, "clause": r.Obl.Src, "smt_bytes": r.Size, "solver": r.Solver, "secs": round2(r.Secs)})
		}
		switch r.Status {
		case "proved":
			nProved++
			bySolver[sliceSizeRe.ReplaceAllString(r.Solver, "")]++
		default:
			if kf, ok := matchKnown(r.Obl.Name, r.Obl, r.Output); ok {
				nKnown++
				if !printedKnown[kf.Text] {
					printedKnown[kf.Text] = true
					fmt.Printf("KNOWN-FINDING: %s\n", kf.Text)
				}
				continue
			}
			exit = 1
			os.MkdirAll(replayDir, 0o755)
			rp := filepath.Join(replayDir, mangle(r.Obl.Name)+".json")
			writeReplay(rp, *prop, r)
			suffix := " no-failing-input-found"
			base := r.Obl.Name
			if i := strings.LastIndex(base, "#"); i > 0 && strings.Count(base, "#") >= 2 && isDigits(base[i+1:]) {
				base = base[:i]
			}
			// an obligation whose name is listed as a finding but whose hits go beyond the listing is a NEW violation: the
			// registered replay demonstrates the listed finding, not this one, so it is not attached
			newBeyondListing := r.Obl.Static != "" && v.isKnownFinding(r.Obl.Name)
			if newBeyondListing {
				suffix = " beyond-the-listed-finding" + suffix
			}
			for _, rr := range reg.Replays {
				if newBeyondListing {
					break
				}
				if rr.Obligation == r.Obl.Name || rr.Obligation == base || globMatch(rr.Obligation, r.Obl.Name) {
					ok, out := runGoReplay(*verifDir, rr.Pkg, rr.File, rr.Run)
					logp := strings.TrimSuffix(rp, ".json") + ".replay.log"
					os.WriteFile(logp, []byte(out), 0o644)
					if ok {
						suffix = " replayed-on-real-code=" + rr.File
						rp = logp
					}
					break
				}
			}
			line := fmt.Sprintf("VIOLATION property=%s replay=%s obligation=%s status=%s%s", *prop, rp, r.Obl.Name, r.Status, suffix)
			violations = append(violations, line)
		}
	}
	for i, fe := range funcErrs {
		exit = 1
		os.MkdirAll(replayDir, 0o755)
		rp := filepath.Join(replayDir, fmt.Sprintf("engine_%d.json", i))
		b, _ := json.MarshalIndent(map[string]interface{}{"property": *prop, "obligation": "subset/contract check", "reason": fe}, "", " ")
		os.WriteFile(rp, b, 0o644)
		violations = append(violations, fmt.Sprintf("VIOLATION property=%s replay=%s reason=%q no-failing-input-found", *prop, rp, fe))
	}
	// ledger: blessed obligations must still be generated
	if led := loadLedger(filepath.Join(*verifDir, "ledger", *prop+".json")); led != nil && fre == nil {
		have := map[string]bool{}
		for _, o := range obls {
			have[o.Name] = true
		}
		for _, n := range led {
			if !have[n] {
				exit = 1
				os.MkdirAll(replayDir, 0o755)
				rp := filepath.Join(replayDir, "missing_"+mangle(n)+".json")
				b, _ := json.MarshalIndent(map[string]interface{}{"property": *prop, "obligation": n, "reason": "blessed obligation is no longer generated (contract or code path removed)"}, "", " ")
				os.WriteFile(rp, b, 0o644)
				violations = append(violations, fmt.Sprintf("VIOLATION property=%s replay=%s obligation=%s status=missing no-failing-input-found", *prop, rp, n))
			}
		}
	}
	// thorough tier: the recorded counterexamples of this property are executed again on the real code. A repaired defect
	// ("fixed:") must not reproduce - if it does, the defect is back and is reported with the replay log; a recorded finding
	// ("finding:") is expected to reproduce - if it does not, the entry is stale and a note is printed (no alarm).
	var canaryInfo []map[string]interface{}
	if *tier == "thorough" && *prop != "" && fre == nil {
		for _, k := range known {
			if k.Property != *prop {
				continue
			}
			for _, rr := range reg.Replays {
				if !strings.Contains(k.Obligation, strings.TrimRight(rr.Obligation, "*")) {
					continue
				}
				ok, out := runGoReplay(*verifDir, rr.Pkg, rr.File, rr.Run)
				info := map[string]interface{}{"kind": k.Kind, "obligation": rr.Obligation, "test": rr.File, "reproduced": ok}
				canaryInfo = append(canaryInfo, info)
				if k.Kind == "fixed" && ok {
					exit = 1
					os.MkdirAll(replayDir, 0o755)
					rp := filepath.Join(replayDir, "returned_"+mangle(rr.Obligation)+".replay.log")
					os.WriteFile(rp, []byte(out), 0o644)
					violations = append(violations, fmt.Sprintf("VIOLATION property=%s replay=%s obligation=%s repaired-defect-reproduces-again replayed-on-real-code=%s", *prop, rp, rr.Obligation, rr.File))
				}
				if k.Kind == "finding" && !ok {
					fmt.Printf("NOTE: recorded finding no longer reproduces on the real code: %s (%s)\n", rr.Obligation, rr.File)
				}
			}
		}
	}
	var boundedInfo []map[string]interface{}
	for _, tk := range trustedUsed {
		found := false
		for _, b := range reg.Bounded {
			if b.Contract != tk {
				continue
			}
			found = true
			ok, out := runGoReplay(*verifDir, b.Pkg, b.File, b.Run)
			info := map[string]interface{}{"assumed_contract": tk, "bound": b.Bound, "test": b.File, "passed": ok, "label": "bounded (not counted as proved)"}
			for _, l := range strings.Split(out, "\n") {
				if strings.Contains(l, "BOUNDED-CHECK") {
					info["result"] = strings.TrimSpace(l)
				}
			}
			boundedInfo = append(boundedInfo, info)
			if !ok {
				exit = 1
				os.MkdirAll(replayDir, 0o755)
				rp := filepath.Join(replayDir, "bounded_"+mangle(tk)+".log")
				os.WriteFile(rp, []byte(out), 0o644)
				violations = append(violations, fmt.Sprintf("VIOLATION property=%s replay=%s assumed-contract=%s refuted-by-bounded-execution-of-the-real-function", *prop, rp, tk))
			}
		}
		if !found {
			boundedInfo = append(boundedInfo, map[string]interface{}{"assumed_contract": tk, "label": "trusted, no bounded stand-in"})
		}
	}
	// bounded clauses: clauses of this property on functions under contract that are decided by bounded execution
	for _, b := range reg.Bounded {
		if b.Clause == "" {
			continue
		}
		serves := *prop == ""
		for _, p := range b.Properties {
			if p == *prop {
				serves = true
			}
		}
		inRun := false
		for _, fn := range fnNames {
			if fn == b.Function {
				inRun = true
			}
		}
		if !serves || !inRun {
			continue
		}
		oname := b.Function + "#bounded@" + b.Clause
		if ct := specs.Contracts[b.Function]; ct != nil {
			oname = pkgShort(ct.Pkg) + "." + ct.shortName() + "#bounded@" + b.Clause
		}
		ok, out := runGoReplay(*verifDir, b.Pkg, b.File, b.Run)
		info := map[string]interface{}{"clause": oname, "bound": b.Bound, "test": b.File, "passed": ok, "label": "bounded (not counted as proved)"}
		for _, l := range strings.Split(out, "\n") {
			if strings.Contains(l, "BOUNDED-CHECK") {
				info["result"] = strings.TrimSpace(l)
			}
		}
		boundedInfo = append(boundedInfo, info)
		if !ok {
			// the hits of a bounded clause are the histories it reports as violating; a listing with only= covers exactly those
			var hits []string
			for _, l := range strings.Split(out, "\n") {
				if i := strings.Index(l, "violated"); i >= 0 {
					hits = append(hits, strings.ReplaceAll(strings.TrimSpace(l[i:]), "; ", ", "))
				}
			}
			if kf, isKnown := matchKnown(oname, &Obligation{Static: "failed"}, strings.Join(hits, "; ")); isKnown {
				if !printedKnown[kf.Text] {
					printedKnown[kf.Text] = true
					fmt.Printf("KNOWN-FINDING: %s\n", kf.Text)
				}
				continue
			}
			exit = 1
			os.MkdirAll(replayDir, 0o755)
			rp := filepath.Join(replayDir, "bounded_"+mangle(oname)+".log")
			os.WriteFile(rp, []byte(out), 0o644)
			violations = append(violations, fmt.Sprintf("VIOLATION property=%s replay=%s obligation=%s status=refuted-by-bounded-execution replayed-on-real-code=%s", *prop, rp, oname, b.File))
		}
	}
	for _, l := range violations {
		fmt.Println(l)
	}
	wall := time.Since(t0).Seconds()
	total := len(results) - nKnown
	fmt.Printf("property=%s tier=%s functions=%d obligations=%d discharged=%d known_findings=%d violations=%d load=%.1fs gen=%.1fs solve_cpu=%.1fs wall=%.1fs\n",
		*prop, *tier, len(fnNames), total, nProved, nKnown, len(violations), tLoad, tGen, solverSecs, wall)
	if *evidence != "" {
		var trusted []string
		for _, k := range sortedKeys(v.g.usedExt) {
			trusted = append(trusted, "assumed contract: "+k)
		}
		for _, n := range v.g.axiomNames {
			trusted = append(trusted, "axiom: "+n)
		}
		for _, k := range sortedKeys(specs.Contracts) {
			if specs.Contracts[k].Trusted {
				trusted = append(trusted, "trusted (unverified) contract: "+k+" — "+specs.Contracts[k].TrustWhy)
			}
		}
		// hypotheses stated as preconditions of the functions that are entry points of the chain (handlers, blockers, hooks,
		// genesis): invariants of the stored state that are assumed at entry and not discharged by this check
		var entryHyp []string
		for _, k := range sortedKeys(specs.Contracts) {
			ct := specs.Contracts[k]
			isEntry := ct.Recv == "msgServer" || ct.Recv == "Hooks" || (ct.Recv == "" && (ct.Func == "BeginBlocker" || ct.Func == "EndBlocker" || ct.Func == "EndBlock" || ct.Func == "InitGenesis" || ct.Func == "ExportGenesis"))
			if !isEntry {
				continue
			}
			used := false
			for _, n := range fnNames {
				if n == k {
					used = true
				}
			}
			if !used {
				continue
			}
			for _, rq := range ct.Requires {
				if len(entryHyp) < 400 {
					entryHyp = append(entryHyp, pkgShort(ct.Pkg)+"."+ct.shortName()+": requires "+rq.Src)
				}
			}
			for _, np := range ct.NoPanic {
				if np.E != nil && len(entryHyp) < 400 {
					entryHyp = append(entryHyp, pkgShort(ct.Pkg)+"."+ct.shortName()+": no-panic claimed only when "+np.Src)
				}
			}
		}
		ev := map[string]interface{}{
			"property_id": *prop, "tier": *tier, "seed": seedFromEnv(), "level": "proof",
			"coverage": map[string]interface{}{
				"obligations": total, "discharged": nProved, "known_finding_obligations": nKnown,
				"checker_cmd":              fmt.Sprintf("govc check -prop %s -tier %s (go/ssa VC generator over /repo working tree; solvers z3 5.1.0, cvc5 1.0, z3 4.8.12)", *prop, *tier),
				"trusted_base":             trusted,
				"functions_under_contract": fnNames,
				"discharged_by_solver":     bySolver,
				"solver_cpu_s":             round2(solverSecs),
				"samples":                  samples,
				"engine_errors":            funcErrs,
				"trusted_contracts_used":   trustedUsed,
				"bounded":                  boundedInfo,
				"replayed_counterexamples": canaryInfo,
				"entry_hypotheses":         entryHyp,
				"closures_abstracted":      abstractedClosures,
			},
			"assumptions": standingAssumptions,
			"wall_s":      round2(wall),
			"violations":  len(violations),
		}
		b, _ := json.MarshalIndent(ev, "", " ")
		os.MkdirAll(filepath.Dir(*evidence), 0o755)
		os.WriteFile(*evidence, b, 0o644)
	}
	return exit
}

var standingAssumptions = []string{
	"integers: Go integer types are SMT Int with exact wrap-around on every operation; sdk.Int/sdk.Dec are unbounded integers (2^256 bound ignored)",
	"slices have value semantics (in-place aliasing through shared backing arrays is outside the subset and rejected where visible)",
	"a handler that returns an error or panics leaves no state change (baseapp); begin/end blockers have no such net",
	"external code (Cosmos SDK, std lib, sao-did) behaves as the encoder rules in govc/ext.go, govc/store.go state; each rule used is listed in trusted_base",
	"protobuf marshal/unmarshal round-trips values; store contents decode to the expected type",
	"account address strings are canonical bech32 (addrStr(addrOf(s)) == s for valid s): upper-case encodings of the same address are not considered",
	"key constructors are injective; prefix stores with different prefix constants are disjoint",
	"gas metering, events, logging and telemetry are not modelled",
	"the wiring of keepers and store keys in app/app.go is as the interface binding table states",
	"store key-field invariants (an entry under key k has value.F == k) are checked at every raw write of the code under contract (#storeinv@ obligations) and assumed at every read; writers outside the verified set are assumed to go through the same Set accessors",
	"decoded store values are well typed: machine-integer fields of unmarshal(bytes) lie in their ranges",
	"ghost function sumDur: its two defining equations plus prefix-independence and monotonicity (inductive consequences) are assumed as axioms",
	"ghost function refundSum (market.Withdraw): its two defining equations over a snapshot of the Shard store are assumed as axioms (a definition)",
	"bounded clauses (coverage.bounded, label bounded): decided by executing the real application on a stated finite set of histories; never counted as proved",
	"ghost axioms of the did contracts: authDids.def and covered.def are definitions; pigeon.cover (pigeonhole) is a theorem proved in /verif/lemmas/Pigeonhole.lean and re-checked with lean on every C17 run; its transcription into the SMT axiom is trusted",
	"a call-site assertion (at Callee assert ...) is an obligation at the call and an assumption afterwards",
	"a closure that contains a loop is not inlined but replaced by its write set (coverage.closures_abstracted): accepted only if it writes captured variables and own locals and calls read-only callees; panics and non-termination inside it are not checked",
	"preconditions of entry points (coverage.entry_hypotheses) are hypotheses about the reachable state: each handler re-establishes the clauses it touches, but their conjunction is not discharged as one inductive invariant; only the key-field and id invariants are discharged against genesis",
}

// checkLean runs lean on a lemma file: accepted when lean exits 0 and the axioms it reports do not include sorryAx.
func checkLean(file string) (bool, string) {
	ctx, cancel := context.WithTimeout(context.Background(), 15*time.Minute)
	defer cancel()
	out, err := exec.CommandContext(ctx, "lean", file).CombinedOutput()
	txt := strings.TrimSpace(string(out))
	if err != nil {
		return false, "lean failed: " + err.Error() + ": " + truncate(txt, 2000)
	}
	if strings.Contains(txt, "sorryAx") || strings.Contains(txt, "error") || !strings.Contains(txt, "depends on axioms") {
		return false, "lean output not accepted: " + truncate(txt, 2000)
	}
	return true, "lean: " + txt
}

// "cone(103/693)-z3-5.1.0" -> "cone-z3-5.1.0": the evidence counts by kind of attempt and back end
var sliceSizeRe = regexp.MustCompile(`\(\d+/\d+\)`)

func seedFromEnv() int {
	var s int
	fmt.Sscanf(os.Getenv("VERIF_SEED"), "%d", &s)
	return s
}

func round2(f float64) float64 { return float64(int(f*100+0.5)) / 100 }

func writeReplay(path, prop string, r *SolveResult) {
	m := map[string]interface{}{
		"property": prop, "obligation": r.Obl.Name, "kind": r.Obl.Kind, "clause": r.Obl.Src, "status": r.Status,
		"solver": r.Solver, "solver_runs": r.Tried, "solver_output": truncate(r.Output, 20000),
	}
	if r.Candidate != "" {
		m["candidate_model_without_quantified_facts"] = truncate(r.Candidate, 20000)
	}
	if r.Obl.Root != nil {
		var ins []map[string]string
		for _, in := range r.Obl.Root.inputs {
			ins = append(ins, map[string]string{"name": in.Name, "term": in.Term, "sort": in.Sort})
		}
		m["inputs"] = ins
		m["function"] = r.Obl.Root.fnShort
	}
	if txt, err := os.ReadFile(r.File); err == nil {
		smtPath := strings.TrimSuffix(path, ".json") + ".smt2"
		os.WriteFile(smtPath, txt, 0o644)
		m["smt_file"] = smtPath
	}
	b, _ := json.MarshalIndent(m, "", " ")
	os.WriteFile(path, b, 0o644)
}

func truncate(s string, n int) string {
	if len(s) > n {
		return s[:n] + "...[truncated]"
	}
	return s
}

func loadLedger(path string) []string {
	b, err := os.ReadFile(path)
	if err != nil {
		return nil
	}
	var l struct {
		Obligations []string `json:"obligations"`
	}
	if json.Unmarshal(b, &l) != nil {
		return nil
	}
	return l.Obligations
}

func reportLoadFailure(prop, verifDir, evidence, tier string, err error, t0 time.Time) int {
	replayDir := filepath.Join(verifDir, "replays", prop)
	os.MkdirAll(replayDir, 0o755)
	rp := filepath.Join(replayDir, "load_failure.json")
	b, _ := json.MarshalIndent(map[string]interface{}{"property": prop, "obligation": "load", "reason": err.Error()}, "", " ")
	os.WriteFile(rp, b, 0o644)
	fmt.Printf("VIOLATION property=%s replay=%s reason=%q no-failing-input-found\n", prop, rp, "repository does not load/type-check")
	return 1
}

func isDigits(s string) bool {
	if s == "" {
		return false
	}
	for _, c := range s {
		if c < '0' || c > '9' {
			return false
		}
	}
	return true
}

// globMatch: pattern with * wildcards against an obligation name.
func globMatch(pat, name string) bool {
	if !strings.Contains(pat, "*") {
		return false
	}
	re, err := regexp.Compile("^" + strings.ReplaceAll(regexp.QuoteMeta(pat), `\*`, ".*") + "$")
	return err == nil && re.MatchString(name)
}
