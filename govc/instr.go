package main

// SSA instruction semantics.

import (
	"fmt"
	"go/constant"
	"go/token"
	"go/types"
	"strings"

	"golang.org/x/tools/go/ssa"
)

func (e *Enc) instr(ins ssa.Instruction) {
	switch x := ins.(type) {
	case *ssa.DebugRef:
	case *ssa.Phi:
		// handled at block entry
	case *ssa.Alloc:
		e.alloc(x)
	case *ssa.Store:
		l := e.locOf(x.Addr)
		e.store(l, e.val(x.Val))
	case *ssa.UnOp:
		e.unop(x)
	case *ssa.BinOp:
		e.vals[x] = e.r.def(e.name(x), e.g().SortOf(x.Type()), e.binop(x.Op, x.X, x.Y, x.Type(), x))
	case *ssa.FieldAddr:
		base := e.locOf(x.X)
		nl := *base
		nl.Path = append(append([]PathEl{}, base.Path...), PathEl{Field: x.Field})
		if base.Kind == "heap" && len(base.Path) == 0 {
			// nil dereference aborts
			e.panicIf(fmt.Sprintf("(= %s 0)", base.Base), "nil dereference", x)
		}
		e.locs[x] = &nl
	case *ssa.Field:
		t, _ := e.loadPath(e.val(x.X), x.X.Type(), []PathEl{{Field: x.Field}})
		e.vals[x] = e.r.def(e.name(x), e.g().SortOf(x.Type()), t)
	case *ssa.IndexAddr:
		e.indexAddr(x)
	case *ssa.Index:
		e.index(x)
	case *ssa.Slice:
		e.slice(x)
	case *ssa.MakeSlice:
		s := e.g().SortOf(x.Type())
		es := e.g().sliceElem[s]
		elemT := x.Type().Underlying().(*types.Slice).Elem()
		ln := e.val(x.Len)
		e.panicIf(fmt.Sprintf("(< %s 0)", ln), "makeslice: len out of range", x)
		e.vals[x] = e.r.def(e.name(x), s, fmt.Sprintf("(mk_%s %s %s false)", s, e.g().ConstArray(es, e.g().Zero(elemT)), ln))
	case *ssa.MakeMap:
		s := e.g().SortOf(x.Type())
		kv := e.g().mapKV[s]
		mt := x.Type().Underlying().(*types.Map)
		e.vals[x] = e.r.def(e.name(x), s, fmt.Sprintf("(mk_%s ((as const (Array %s %s)) %s) ((as const (Array %s Bool)) false) false)", s, kv[0], kv[1], e.g().Zero(mt.Elem()), kv[0]))
		// maps are reference types: represent as a local state var keyed by the make site
		name := "map:" + e.name(x)
		e.ensureState(name, s)
		e.setState(name, s, e.vals[x])
		e.locs[x] = &Loc{Kind: "local", Name: name, T: x.Type()}
	case *ssa.MapUpdate:
		e.mapUpdate(x)
	case *ssa.Lookup:
		e.lookup(x)
	case *ssa.Extract:
		tup := e.tuples[x.Tuple]
		if tup == nil || x.Index >= len(tup) {
			e.r.errorf("internal: extract from unknown tuple in %s", e.fn.Name())
			e.vals[x] = e.havoc(x.Type(), "ex")
			return
		}
		e.vals[x] = tup[x.Index]
	case *ssa.Call:
		e.call(x)
	case *ssa.ChangeType:
		e.vals[x] = e.val(x.X)
		if l, ok := e.locs[x.X]; ok {
			e.locs[x] = l
		}
	case *ssa.Convert:
		e.convert(x)
	case *ssa.MakeInterface:
		e.makeInterface(x)
	case *ssa.ChangeInterface:
		ts, xs := e.g().SortOf(x.Type()), e.g().SortOf(x.X.Type())
		switch {
		case ts == xs:
			e.vals[x] = e.val(x.X)
		case ts == sortAny:
			e.vals[x] = e.r.def(e.name(x), sortAny, fmt.Sprintf("(any_other %s)", e.val(x.X)))
		default:
			e.vals[x] = e.g().zeroOfSort(ts, x.Type())
		}
	case *ssa.MakeClosure:
		e.funcs[x] = "closure:" + x.Fn.(*ssa.Function).String()
		e.vals[x] = "0"
		e.closures()[x] = x
	case *ssa.Range:
		e.rangeInit(x)
	case *ssa.Next:
		e.rangeNext(x)
	case *ssa.TypeAssert:
		e.r.errorf("outside subset: type assertion in %s", e.fn.Name())
		if x.CommaOk {
			e.tuples[x] = []string{e.havoc(x.AssertedType, "ta"), e.havocSort("Bool", "taok")}
		} else {
			e.vals[x] = e.havoc(x.AssertedType, "ta")
		}
	case *ssa.Jump, *ssa.If:
	case *ssa.Return:
		var vs []string
		for _, rv := range x.Results {
			vs = append(vs, e.val(rv))
		}
		okRet := true
		if n := len(x.Results); n > 0 && isErrorLike(x.Results[n-1].Type()) {
			c, isC := x.Results[n-1].(*ssa.Const)
			okRet = isC && c.Value == nil
		}
		e.rets = append(e.rets, retInfo{reach: e.reach[e.cur], vals: vs, st: e.st, okRet: okRet, pos: posStr(e.fn.Prog.Fset, x.Pos()), blk: e.r.curBlock})
	case *ssa.Panic:
		e.explicitPanic(x)
	case *ssa.RunDefers:
	case *ssa.Defer:
		e.deferCall(x)
	case *ssa.Go, *ssa.Select, *ssa.Send:
		e.r.errorf("outside subset: concurrency (%T) in %s", ins, e.fn.Name())
	default:
		e.r.errorf("outside subset: instruction %T in %s", ins, e.fn.Name())
	}
}

var closureTab = map[*Root]map[ssa.Value]*ssa.MakeClosure{}

func (e *Enc) closures() map[ssa.Value]*ssa.MakeClosure {
	m := closureTab[e.r]
	if m == nil {
		m = map[ssa.Value]*ssa.MakeClosure{}
		closureTab[e.r] = m
	}
	return m
}

// panicIf: cond true means the operation panics. In nopanic functions this is an obligation; elsewhere the
// continuation assumes the operation did not panic (the transaction is aborted and its writes are discarded).
func (e *Enc) panicIf(cond, what string, at ssa.Instruction) {
	reach := e.reach[e.cur]
	if e.r.nopanic {
		pos := ""
		if at != nil {
			pos = posStr(e.fn.Prog.Fset, at.Pos())
		}
		e.r.addObl(&Obligation{Name: fmt.Sprintf("%s#safe@%s", e.r.fnShort, mangle(what)), Kind: "safe", Tags: e.r.nopanicTags(),
			Goal: fmt.Sprintf("(=> %s (not %s))", reach, cond), Src: what + " at " + pos + " (in " + e.fn.Name() + ")"})
	}
	e.r.assume(fmt.Sprintf("(=> %s (not %s))", reach, cond))
}

func (r *Root) nopanicTags() []string {
	var t []string
	if r.ct != nil {
		for _, c := range r.ct.NoPanic {
			t = append(t, c.Tags...)
		}
	}
	return t
}

func (e *Enc) explicitPanic(x *ssa.Panic) {
	e.panicIf("true", "explicit panic", x)
}

func (e *Enc) alloc(x *ssa.Alloc) {
	el := x.Type().(*types.Pointer).Elem()
	if !x.Heap {
		name := fmt.Sprintf("loc:%s%s_%s", e.pfx, x.Name(), mangle(x.Comment))
		e.ensureState(name, e.g().SortOf(el))
		e.setState(name, e.g().SortOf(el), e.g().Zero(el))
		e.locs[x] = &Loc{Kind: "local", Name: name, T: el}
		return
	}
	ref := e.allocRef()
	h := e.heapFor(el)
	e.setState(h, "", fmt.Sprintf("(store %s %s %s)", e.getState(h), ref, e.g().Zero(el)))
	e.locs[x] = &Loc{Kind: "heap", Name: h, Base: ref, T: el}
	e.vals[x] = ref
	if e.loopDepthOf(x.Block()) == 0 {
		e.r.allocs = append(e.r.allocs, ref)
	}
}

func (e *Enc) loopDepthOf(b *ssa.BasicBlock) int {
	n := 0
	for _, li := range e.loops {
		if li.body[b] {
			n++
		}
	}
	return n
}

func (e *Enc) unop(x *ssa.UnOp) {
	switch x.Op {
	case token.MUL: // load
		if g, ok := x.X.(*ssa.Global); ok {
			if _, isFn := types.Unalias(x.Type()).Underlying().(*types.Signature); isFn {
				e.funcs[x] = g.Pkg.Pkg.Path() + "." + g.Name()
				e.vals[x] = "0"
				return
			}
		}
		l := e.locOf(x.X)
		if l.Kind == "heap" && len(l.Path) == 0 {
			e.panicIf(fmt.Sprintf("(= %s 0)", l.Base), "nil dereference", x)
		}
		t, _ := e.load(l)
		v := e.r.def(e.name(x), e.g().SortOf(x.Type()), t)
		e.vals[x] = v
		e.typeInvShallow(v, x.Type())
	case token.NOT:
		e.vals[x] = e.r.def(e.name(x), "Bool", fmt.Sprintf("(not %s)", e.val(x.X)))
	case token.SUB:
		s := e.g().SortOf(x.Type())
		if s == sortF32 || s == sortF64 {
			e.vals[x] = e.r.def(e.name(x), s, fmt.Sprintf("(fp.neg %s)", e.val(x.X)))
			return
		}
		e.vals[x] = e.r.def(e.name(x), "Int", e.wrap(fmt.Sprintf("(- %s)", e.val(x.X)), x.Type()))
	case token.XOR:
		if b := intBasic(x.Type()); b != nil {
			bits, signed := intBits(b)
			if signed {
				e.vals[x] = e.r.def(e.name(x), "Int", fmt.Sprintf("(- (- %s) 1)", e.val(x.X)))
			} else {
				e.vals[x] = e.r.def(e.name(x), "Int", fmt.Sprintf("(- %s %s)", pow2m1(bits), e.val(x.X)))
			}
			return
		}
		e.r.errorf("outside subset: unary ^ on %s", x.Type())
	case token.ARROW:
		e.r.errorf("outside subset: channel receive in %s", e.fn.Name())
		e.vals[x] = e.havoc(x.Type(), "recv")
	default:
		e.r.errorf("outside subset: unary op %s", x.Op)
	}
}

func pow2m1(bits int) string {
	switch bits {
	case 8:
		return "255"
	case 16:
		return "65535"
	case 32:
		return "4294967295"
	}
	return "18446744073709551615"
}

// typeInvShallow: machine-range facts for a loaded value (ints directly, slices' lengths)
func (e *Enc) typeInvShallow(term string, t types.Type) {
	e.typeInv(term, t, 2)
}

func (e *Enc) wrap(term string, t types.Type) string {
	b := intBasic(t)
	if b == nil {
		return term
	}
	bits, signed := intBits(b)
	p := "u"
	if signed {
		p = "i"
	}
	return fmt.Sprintf("(wrap_%s%d %s)", p, bits, term)
}

func (e *Enc) binop(op token.Token, X, Y ssa.Value, resT types.Type, at ssa.Instruction) string {
	a, b := e.val(X), e.val(Y)
	xt := types.Unalias(X.Type())
	s := e.g().SortOf(xt)
	isF := s == sortF32 || s == sortF64
	isStr := s == sortStr
	switch op {
	case token.EQL, token.NEQ:
		var eq string
		if isF {
			eq = fmt.Sprintf("(fp.eq %s %s)", a, b)
		} else if _, isSl := e.g().sliceElem[s]; isSl && isNilConst(Y) {
			eq = fmt.Sprintf("(%s_nil %s)", s, a)
		} else if _, isSl := e.g().sliceElem[s]; isSl && isNilConst(X) {
			eq = fmt.Sprintf("(%s_nil %s)", s, b)
		} else if _, isM := e.g().mapKV[s]; isM && isNilConst(Y) {
			eq = fmt.Sprintf("(%s_nil %s)", s, a)
		} else {
			eq = fmt.Sprintf("(= %s %s)", a, b)
		}
		if op == token.NEQ {
			return "(not " + eq + ")"
		}
		return eq
	case token.LSS, token.LEQ, token.GTR, token.GEQ:
		if isF {
			m := map[token.Token]string{token.LSS: "fp.lt", token.LEQ: "fp.leq", token.GTR: "fp.gt", token.GEQ: "fp.geq"}
			return fmt.Sprintf("(%s %s %s)", m[op], a, b)
		}
		if isStr {
			switch op {
			case token.LSS:
				return fmt.Sprintf("(strlt %s %s)", a, b)
			case token.GTR:
				return fmt.Sprintf("(strlt %s %s)", b, a)
			case token.LEQ:
				return fmt.Sprintf("(not (strlt %s %s))", b, a)
			default:
				return fmt.Sprintf("(not (strlt %s %s))", a, b)
			}
		}
		m := map[token.Token]string{token.LSS: "<", token.LEQ: "<=", token.GTR: ">", token.GEQ: ">="}
		return fmt.Sprintf("(%s %s %s)", m[op], a, b)
	case token.LAND:
		return fmt.Sprintf("(and %s %s)", a, b)
	case token.LOR:
		return fmt.Sprintf("(or %s %s)", a, b)
	}
	if isStr && op == token.ADD {
		return fmt.Sprintf("(strcat %s %s)", a, b)
	}
	if isF {
		m := map[token.Token]string{token.ADD: "fp.add", token.SUB: "fp.sub", token.MUL: "fp.mul", token.QUO: "fp.div"}
		if f, ok := m[op]; ok {
			return fmt.Sprintf("(%s RNE %s %s)", f, a, b)
		}
		e.r.errorf("outside subset: float op %s", op)
		return a
	}
	bt := intBasic(resT)
	if bt == nil {
		e.r.errorf("outside subset: binop %s on %s", op, resT)
		return a
	}
	bits, signed := intBits(bt)
	switch op {
	case token.ADD:
		if bits == 64 && signed {
			return fmt.Sprintf("(add_i64 %s %s)", a, b)
		}
		if bits == 64 {
			return fmt.Sprintf("(add_u64 %s %s)", a, b)
		}
		return e.wrap(fmt.Sprintf("(+ %s %s)", a, b), resT)
	case token.SUB:
		if bits == 64 && signed {
			return fmt.Sprintf("(sub_i64 %s %s)", a, b)
		}
		if bits == 64 {
			return fmt.Sprintf("(sub_u64 %s %s)", a, b)
		}
		return e.wrap(fmt.Sprintf("(- %s %s)", a, b), resT)
	case token.MUL:
		return e.wrap(mulTerm(a, b), resT)
	case token.QUO:
		e.panicIf(fmt.Sprintf("(= %s 0)", b), "integer division by zero", at)
		if signed {
			return e.wrap(divTerm("tdiv", a, b), resT)
		}
		return divTerm("div", a, b)
	case token.REM:
		e.panicIf(fmt.Sprintf("(= %s 0)", b), "integer division by zero", at)
		if signed {
			return divTerm("tmod", a, b)
		}
		return divTerm("mod", a, b)
	case token.AND, token.OR, token.XOR, token.AND_NOT:
		if ca, ok := constInt(X); ok {
			if cb, ok := constInt(Y); ok {
				var r int64
				switch op {
				case token.AND:
					r = ca & cb
				case token.OR:
					r = ca | cb
				case token.XOR:
					r = ca ^ cb
				case token.AND_NOT:
					r = ca &^ cb
				}
				return fmt.Sprintf("%d", r)
			}
		}
		switch op {
		case token.AND:
			return fmt.Sprintf("(band %s %s)", a, b)
		case token.OR:
			return fmt.Sprintf("(bor %s %s)", a, b)
		case token.XOR:
			return fmt.Sprintf("(bxor %s %s)", a, b)
		}
		return fmt.Sprintf("(band %s (- %s %s))", a, pow2m1(bits), b)
	case token.SHL:
		if c, ok := constInt(Y); ok && c >= 0 && c < 64 {
			return e.wrap(fmt.Sprintf("(* %s %s)", a, pow2(int(c))), resT)
		}
		e.g().DeclFun("shl", []string{"Int", "Int"}, "Int")
		return e.wrap(fmt.Sprintf("(shl %s %s)", a, b), resT)
	case token.SHR:
		if c, ok := constInt(Y); ok && c >= 0 && c < 64 {
			return fmt.Sprintf("(div %s %s)", a, pow2(int(c)))
		}
		e.g().DeclFun("shr", []string{"Int", "Int"}, "Int")
		return e.wrap(fmt.Sprintf("(shr %s %s)", a, b), resT)
	}
	e.r.errorf("outside subset: binop %s", op)
	return a
}

func pow2(n int) string {
	v := constant.Shift(constant.MakeInt64(1), token.SHL, uint(n))
	return v.ExactString()
}

func isNilConst(v ssa.Value) bool {
	c, ok := v.(*ssa.Const)
	return ok && c.Value == nil
}

func constInt(v ssa.Value) (int64, bool) {
	if v == nil {
		return 0, false
	}
	c, ok := v.(*ssa.Const)
	if !ok || c.Value == nil || c.Value.Kind() != constant.Int {
		return 0, false
	}
	i, exact := constant.Int64Val(c.Value)
	return i, exact
}

func (e *Enc) indexAddr(x *ssa.IndexAddr) {
	idx := e.val(x.Index)
	xt := types.Unalias(x.X.Type()).Underlying()
	switch t := xt.(type) {
	case *types.Pointer: // pointer to array
		base := e.locOf(x.X)
		nl := *base
		nl.Path = append(append([]PathEl{}, base.Path...), PathEl{Field: -1, Index: idx})
		if at, ok := t.Elem().Underlying().(*types.Array); ok {
			e.panicIf(fmt.Sprintf("(or (< %s 0) (>= %s %d))", idx, idx, at.Len()), "index out of range", x)
		}
		e.locs[x] = &nl
	case *types.Slice:
		sl := e.val(x.X)
		s := e.g().SortOf(x.X.Type())
		e.panicIf(fmt.Sprintf("(or (< %s 0) (>= %s (%s_len %s)))", idx, idx, s, sl), "index out of range", x)
		e.locs[x] = &Loc{Kind: "elem", Base: sl, T: x.X.Type(), Path: []PathEl{{Field: -1, Index: idx}}}
	default:
		e.r.errorf("outside subset: IndexAddr on %s", x.X.Type())
	}
}

func (e *Enc) index(x *ssa.Index) {
	idx := e.val(x.Index)
	v := e.val(x.X)
	switch t := types.Unalias(x.X.Type()).Underlying().(type) {
	case *types.Array:
		s := e.g().SortOf(x.X.Type())
		e.panicIf(fmt.Sprintf("(or (< %s 0) (>= %s %d))", idx, idx, t.Len()), "index out of range", x)
		e.vals[x] = e.r.def(e.name(x), e.g().SortOf(x.Type()), fmt.Sprintf("(select (%s_arr %s) %s)", s, v, idx))
	case *types.Basic: // string index
		e.g().DeclFun("strat", []string{"Str", "Int"}, "Int")
		e.panicIf(fmt.Sprintf("(or (< %s 0) (>= %s (strlen %s)))", idx, idx, v), "string index out of range", x)
		r := e.r.def(e.name(x), "Int", fmt.Sprintf("(strat %s %s)", v, idx))
		e.vals[x] = r
		e.r.assume(fmt.Sprintf("(and (<= 0 %s) (<= %s 255))", r, r))
	default:
		e.r.errorf("outside subset: Index on %s", x.X.Type())
		e.vals[x] = e.havoc(x.Type(), "idx")
	}
}

func (e *Enc) slice(x *ssa.Slice) {
	xt := types.Unalias(x.X.Type()).Underlying()
	rs := e.g().SortOf(x.Type())
	switch t := xt.(type) {
	case *types.Pointer: // slicing an array through its pointer: snapshot of the array content
		l := e.locOf(x.X)
		arrTerm, _ := e.load(l)
		at := t.Elem().Underlying().(*types.Array)
		as := e.g().SortOf(t.Elem())
		hiFull := x.High == nil
		if c, ok := constInt(x.High); x.High != nil && ok && c == at.Len() {
			hiFull = true
		}
		if x.Low == nil && hiFull {
			e.vals[x] = e.r.def(e.name(x), rs, fmt.Sprintf("(mk_%s (%s_arr %s) %d false)", rs, as, arrTerm, at.Len()))
			return
		}
		e.r.errorf("outside subset: partial slice of array in %s", e.fn.Name())
		e.vals[x] = e.havoc(x.Type(), "sl")
	case *types.Slice:
		v := e.val(x.X)
		s := rs
		lo := "0"
		if x.Low != nil {
			lo = e.val(x.Low)
		}
		hi := fmt.Sprintf("(%s_len %s)", s, v)
		if x.High != nil {
			hi = e.val(x.High)
		}
		if x.Max != nil {
			e.r.errorf("outside subset: 3-index slice")
		}
		// bounds: 0 <= lo <= hi <= cap ; capacity is not modelled, hi <= len is required instead (stricter than Go)
		e.panicIf(fmt.Sprintf("(or (< %s 0) (> %s %s) (> %s (%s_len %s)))", lo, lo, hi, hi, s, v), "slice bounds out of range", x)
		if lo == "0" {
			e.vals[x] = e.r.def(e.name(x), s, fmt.Sprintf("(mk_%s (%s_arr %s) %s false)", s, s, v, hi))
			return
		}
		// shifted view: new array a'[k] = a[k+lo]
		es := e.g().sliceElem[s]
		arr := e.r.decl(e.r.fresh(e.name(x)+"_arr"), fmt.Sprintf("(Array Int %s)", es))
		e.r.assume(fmt.Sprintf("(forall ((k!s Int)) (! (= (select %s k!s) (select (%s_arr %s) (+ k!s %s))) :pattern ((select %s k!s))))", arr, s, v, lo, arr))
		e.vals[x] = e.r.def(e.name(x), s, fmt.Sprintf("(mk_%s %s (- %s %s) false)", s, arr, hi, lo))
	case *types.Basic: // string slicing
		v := e.val(x.X)
		e.g().DeclFun("substr", []string{"Str", "Int", "Int"}, "Str")
		lo := "0"
		if x.Low != nil {
			lo = e.val(x.Low)
		}
		hi := fmt.Sprintf("(strlen %s)", v)
		if x.High != nil {
			hi = e.val(x.High)
		}
		e.panicIf(fmt.Sprintf("(or (< %s 0) (> %s %s) (> %s (strlen %s)))", lo, lo, hi, hi, v), "slice bounds out of range", x)
		r := e.r.def(e.name(x), sortStr, fmt.Sprintf("(substr %s %s %s)", v, lo, hi))
		e.r.assume(fmt.Sprintf("(= (strlen %s) (- %s %s))", r, hi, lo))
		e.vals[x] = r
	default:
		e.r.errorf("outside subset: Slice on %s", x.X.Type())
		e.vals[x] = e.havoc(x.Type(), "sl")
	}
}

func (e *Enc) convert(x *ssa.Convert) {
	from := types.Unalias(x.X.Type())
	to := types.Unalias(x.Type())
	fs, ts := e.g().SortOf(from), e.g().SortOf(to)
	v := e.val(x.X)
	fb, tb := intBasic(from), intBasic(to)
	switch {
	case fb != nil && tb != nil:
		e.vals[x] = e.r.def(e.name(x), "Int", e.convInt(v, fb, tb))
	case fb != nil && (ts == sortF32 || ts == sortF64):
		eb, sb := 11, 53
		if ts == sortF32 {
			eb, sb = 8, 24
		}
		// int -> float: uninterpreted monotone conversion (exact rounding is not needed by any clause; solvers are slow on
		// to_fp of a symbolic real). Axioms: sign and >= 1 are preserved.
		fn := "i2f_" + mangle(ts)
		e.g().DeclFun(fn, []string{"Int"}, ts)
		e.g().Axiom("i2f.sign."+mangle(ts), fmt.Sprintf("(forall ((x Int)) (! (and (=> (>= x 0) (fp.geq (%s x) ((_ to_fp %d %d) RNE 0.0))) (=> (>= x 1) (fp.geq (%s x) ((_ to_fp %d %d) RNE 1.0))) (not (fp.isNaN (%s x))) (not (fp.isInfinite (%s x)))) :pattern ((%s x))))", fn, eb, sb, fn, eb, sb, fn, fn, fn))
		e.vals[x] = e.r.def(e.name(x), ts, fmt.Sprintf("(%s %s)", fn, v))
	case (fs == sortF32 || fs == sortF64) && tb != nil:
		// float -> int: truncation; out-of-range is implementation-defined: uninterpreted with range
		fn := "f2i_" + mangle(fs)
		e.g().DeclFun(fn, []string{fs}, "Int")
		if fs == sortF64 {
			// truncation: non-negative stays non-negative; a value >= 1 never converts to 0 (out-of-range conversions give
			// MinInt64/MaxInt64 on the supported targets)
			e.g().Axiom("f2i.sign", fmt.Sprintf("(forall ((x %s)) (! (and (=> (fp.geq x ((_ to_fp 11 53) RNE 1.0)) (not (= (%s x) 0))) (=> (and (fp.geq x ((_ to_fp 11 53) RNE 0.0)) (fp.leq x ((_ to_fp 11 53) RNE 1000000.0))) (and (>= (%s x) 0) (<= (%s x) 1000000))) (<= (- 9223372036854775808) (%s x)) (<= (%s x) 9223372036854775807)) :pattern ((%s x))))", fs, fn, fn, fn, fn, fn, fn))
		}
		r := e.r.def(e.name(x), "Int", e.wrap(fmt.Sprintf("(%s %s)", fn, v), to))
		e.vals[x] = r
	case (fs == sortF32 || fs == sortF64) && (ts == sortF32 || ts == sortF64):
		eb, sb := 11, 53
		if ts == sortF32 {
			eb, sb = 8, 24
		}
		if fs == ts {
			e.vals[x] = v
		} else {
			e.vals[x] = e.r.def(e.name(x), ts, fmt.Sprintf("((_ to_fp %d %d) RNE %s)", eb, sb, v))
		}
	case fs == sortStr && isByteSlice(to):
		e.g().DeclFun("str2bytes", []string{"Str"}, ts)
		e.g().DeclFun("bytes2str", []string{ts}, "Str")
		e.g().Axiom("str2bytes.roundtrip", fmt.Sprintf("(forall ((s Str)) (! (and (= (bytes2str (str2bytes s)) s) (not (%s_nil (str2bytes s))) (= (%s_len (str2bytes s)) (strlen s))) :pattern ((str2bytes s))))", ts, ts))
		e.vals[x] = e.r.def(e.name(x), ts, fmt.Sprintf("(str2bytes %s)", v))
	case isByteSlice(from) && ts == sortStr:
		e.g().DeclFun("str2bytes", []string{"Str"}, fs)
		e.g().DeclFun("bytes2str", []string{fs}, "Str")
		e.g().Axiom("str2bytes.roundtrip", fmt.Sprintf("(forall ((s Str)) (! (and (= (bytes2str (str2bytes s)) s) (not (%s_nil (str2bytes s))) (= (%s_len (str2bytes s)) (strlen s))) :pattern ((str2bytes s))))", fs, fs))
		e.vals[x] = e.r.def(e.name(x), ts, fmt.Sprintf("(bytes2str %s)", v))
	case fb != nil && ts == sortStr:
		e.g().DeclFun("rune2str", []string{"Int"}, "Str")
		e.vals[x] = e.r.def(e.name(x), ts, fmt.Sprintf("(rune2str %s)", v))
	case fs == ts:
		e.vals[x] = v
	default:
		e.r.errorf("outside subset: conversion %s -> %s in %s", from, to, e.fn.Name())
		e.vals[x] = e.havoc(x.Type(), "cv")
	}
}

func isByteSlice(t types.Type) bool {
	if s, ok := types.Unalias(t).Underlying().(*types.Slice); ok {
		if b, ok := types.Unalias(s.Elem()).Underlying().(*types.Basic); ok {
			return b.Kind() == types.Uint8
		}
	}
	return false
}

func (e *Enc) convInt(v string, from, to *types.Basic) string {
	fb, fsgn := intBits(from)
	tb, tsgn := intBits(to)
	// value-preserving widenings need no wrap
	if fsgn == tsgn && tb >= fb {
		return v
	}
	if !fsgn && tsgn && tb > fb {
		return v
	}
	p := "u"
	if tsgn {
		p = "i"
	}
	return fmt.Sprintf("(wrap_%s%d %s)", p, tb, v)
}

func (e *Enc) makeInterface(x *ssa.MakeInterface) {
	ts := e.g().SortOf(x.Type())
	v := e.val(x.X)
	xs := e.g().SortOf(x.X.Type())
	switch ts {
	case sortAny:
		var t string
		switch xs {
		case sortStr:
			t = fmt.Sprintf("(any_str %s)", v)
		case sortInt:
			if _, isPtr := types.Unalias(x.X.Type()).Underlying().(*types.Pointer); isPtr {
				t = fmt.Sprintf("(any_other %s)", v)
			} else {
				t = fmt.Sprintf("(any_int %s)", v)
			}
		case sortBool:
			t = fmt.Sprintf("(any_bool %s)", v)
		case sortAddr:
			t = fmt.Sprintf("(any_addr %s)", v)
		default:
			// boxed composite: opaque but deterministic function of the value
			fn := "box_" + mangle(xs)
			e.g().DeclFun(fn, []string{xs}, "Int")
			t = fmt.Sprintf("(any_other (%s %s))", fn, v)
		}
		e.vals[x] = e.r.def(e.name(x), sortAny, t)
	case sortInt: // error interface
		if isErrorLike(x.X.Type()) {
			e.vals[x] = v
		} else {
			// some other concrete error type: non-nil opaque
			n := e.havocSort("Int", "errv")
			e.r.assume(fmt.Sprintf("(not (= %s 0))", n))
			e.vals[x] = n
		}
	default:
		e.vals[x] = "0"
		// remember the concrete value for invoke resolution
		e.boxed()[x] = x.X
	}
}

var boxedTab = map[*Enc]map[ssa.Value]ssa.Value{}

func (e *Enc) boxed() map[ssa.Value]ssa.Value {
	m := boxedTab[e]
	if m == nil {
		m = map[ssa.Value]ssa.Value{}
		boxedTab[e] = m
	}
	return m
}

// ---------------------------------------------------------------------------------------------
// maps (Go built-in), held in "map:" state variables because maps are reference types

func (e *Enc) mapLoc(v ssa.Value) *Loc {
	if l, ok := e.locs[v]; ok && l != nil {
		return l
	}
	return nil
}

func (e *Enc) mapTerm(v ssa.Value) string {
	if l := e.mapLoc(v); l != nil {
		t, _ := e.load(l)
		return t
	}
	return e.val(v)
}

func (e *Enc) mapUpdate(x *ssa.MapUpdate) {
	l := e.mapLoc(x.Map)
	if l == nil {
		e.r.errorf("outside subset: update of a map that is not a local make() in %s", e.fn.Name())
		return
	}
	s := e.g().SortOf(x.Map.Type())
	m, _ := e.load(l)
	k, v := e.val(x.Key), e.val(x.Value)
	e.panicIf(fmt.Sprintf("(%s_nil %s)", s, m), "assignment to entry in nil map", x)
	e.store(l, fmt.Sprintf("(mk_%s (store (%s_val %s) %s %s) (store (%s_dom %s) %s true) false)", s, s, m, k, v, s, m, k))
}

func (e *Enc) lookup(x *ssa.Lookup) {
	if _, ok := types.Unalias(x.X.Type()).Underlying().(*types.Map); !ok {
		// string index
		e.g().DeclFun("strat", []string{"Str", "Int"}, "Int")
		e.vals[x] = e.r.def(e.name(x), "Int", fmt.Sprintf("(strat %s %s)", e.val(x.X), e.val(x.Index)))
		return
	}
	s := e.g().SortOf(x.X.Type())
	mt := x.X.Type().Underlying().(*types.Map)
	m := e.mapTerm(x.X)
	k := e.val(x.Index)
	in := fmt.Sprintf("(select (%s_dom %s) %s)", s, m, k)
	val := fmt.Sprintf("(ite %s (select (%s_val %s) %s) %s)", in, s, m, k, e.g().Zero(mt.Elem()))
	if x.CommaOk {
		e.tuples[x] = []string{e.r.def(e.name(x)+"_v", e.g().SortOf(mt.Elem()), val), e.r.def(e.name(x)+"_ok", "Bool", in)}
	} else {
		e.vals[x] = e.r.def(e.name(x), e.g().SortOf(mt.Elem()), val)
	}
}

type rangeInfo struct {
	mapVal  ssa.Value
	visited string // state var name of ghost visited set
	isStr   bool
}

// range over a map: arbitrary order. Ghost state "visited" (Array K Bool); Next returns any unvisited key of the domain.
func (e *Enc) rangeInit(x *ssa.Range) {
	if _, ok := types.Unalias(x.X.Type()).Underlying().(*types.Map); !ok {
		e.r.errorf("outside subset: range over string in %s", e.fn.Name())
		return
	}
	s := e.g().SortOf(x.X.Type())
	kv := e.g().mapKV[s]
	name := "visited:" + e.name(x)
	srt := fmt.Sprintf("(Array %s Bool)", kv[0])
	e.ensureState(name, srt)
	e.setState(name, srt, fmt.Sprintf("((as const %s) false)", srt))
	if e.ranges == nil {
		e.ranges = map[ssa.Value]*rangeInfo{}
	}
	e.ranges[x] = &rangeInfo{mapVal: x.X, visited: name}
	e.vals[x] = "0"
}

func (e *Enc) rangeNext(x *ssa.Next) {
	ri := e.ranges[x.Iter]
	if ri == nil {
		e.r.errorf("outside subset: Next on unknown range in %s", e.fn.Name())
		e.tuples[x] = []string{"false", "0", "0"}
		return
	}
	s := e.g().SortOf(ri.mapVal.Type())
	kv := e.g().mapKV[s]
	mt := ri.mapVal.Type().Underlying().(*types.Map)
	m := e.mapTerm(ri.mapVal)
	vis := e.getState(ri.visited)
	ok := e.havocSort("Bool", e.name(x)+"_ok")
	k := e.havocSort(kv[0], e.name(x)+"_k")
	reach := e.reach[e.cur]
	// ok <=> some key of the domain is unvisited ; if ok, k is such a key
	e.r.assume(fmt.Sprintf("(=> %s (=> %s (and (select (%s_dom %s) %s) (not (select %s %s)))))", reach, ok, s, m, k, vis, k))
	e.r.assume(fmt.Sprintf("(=> %s (=> (not %s) (forall ((k!n %s)) (! (=> (select (%s_dom %s) k!n) (select %s k!n)) :pattern ((select %s k!n))))))", reach, ok, kv[0], s, m, vis, vis))
	e.setState(ri.visited, "", fmt.Sprintf("(ite %s (store %s %s true) %s)", ok, vis, k, vis))
	v := e.r.def(e.name(x)+"_v", kv[1], fmt.Sprintf("(select (%s_val %s) %s)", s, m, k))
	e.typeInv(k, mt.Key(), 0)
	e.typeInv(v, mt.Elem(), 0)
	e.tuples[x] = []string{ok, k, v}
}

func (e *Enc) deferCall(x *ssa.Defer) {
	name := calleeName(&x.Call, e)
	if isSinkName(name) || strings.HasSuffix(name, ".Close") {
		return
	}
	// a deferred repo function under a contract with "modifies nothing" has no effect on any state the caller or a later
	// transition can observe (it may read its arguments and emit events); in a nopanic function it is not accepted
	if callee := x.Call.StaticCallee(); callee != nil && !e.r.nopanic {
		if ct := e.r.v.specs.Contracts[funcKey(callee)]; ct != nil && !ct.ModAll && len(ct.Modifies) == 1 && ct.Modifies[0].E != nil && ct.Modifies[0].E.Op == "id" && ct.Modifies[0].E.S == "nothing" {
			if e.r.v.callees[e.r] == nil {
				e.r.v.callees[e.r] = map[string]bool{}
			}
			e.r.v.callees[e.r][ct.Key] = true
			return
		}
	}
	e.r.errorf("outside subset: defer of %s in %s", name, e.fn.Name())
}
