package main

// Discharging obligations: SMT-LIB emission and a solver portfolio.

import (
	"bytes"
	"context"
	"fmt"
	"os"
	"os/exec"
	"path/filepath"
	"sort"
	"strings"
	"sync"
	"time"
)

type SolveResult struct {
	Obl       *Obligation
	Status    string // proved, failed, unknown, error ; for ExpSat: proved == sat
	Solver    string
	Secs      float64
	Output    string
	File      string
	Model     string
	Size      int
	Tried     []string
	Candidate string // model of the quantifier-free weakening (candidate counterexample)
}

type solverSpec struct {
	name string
	cmd  func(file string, timeoutS int) []string
}

var solvers = []solverSpec{
	{"z3-5.1.0", func(f string, t int) []string { return []string{"z3-new", fmt.Sprintf("-T:%d", t), f} }},
	{"cvc5-1.0", func(f string, t int) []string {
		return []string{"cvc5", "--lang=smt2", fmt.Sprintf("--tlimit=%d", t*1000), f}
	}},
	{"z3-4.8.12", func(f string, t int) []string { return []string{"/usr/bin/z3", fmt.Sprintf("-T:%d", t), f} }},
}

func (v *Verifier) smtText(o *Obligation, withModel bool) string {
	return v.smtTextKeep(o, withModel, nil)
}

func (v *Verifier) smtTextKeep(o *Obligation, withModel bool, keep map[int]bool) string {
	var b strings.Builder
	if withModel {
		b.WriteString("(set-option :produce-models true)\n")
	}
	b.WriteString("(set-logic ALL)\n")
	b.WriteString("; obligation " + o.Name + "\n; " + strings.ReplaceAll(o.Src, "\n", " ") + "\n")
	// items of the obligation first, then only the pure spec functions they (transitively) mention, in definition order
	var items strings.Builder
	if o.Root != nil {
		for idx, it := range o.Root.items[:o.N] {
			if keep != nil && it.Kind == "assume" && !keep[idx] {
				continue
			}
			if o.ExpSat && it.Kind == "assume" && (strings.Contains(it.Text, "(forall ") || strings.Contains(it.Text, "(exists ")) {
				continue // smoke checks run without quantified facts (see DESIGN 5.2)
			}
			items.WriteString(it.Text + "\n")
		}
	}
	used := map[string]bool{}
	identSet(items.String(), used)
	identSet(o.Goal, used)
	pureName := func(d string) string {
		t := strings.TrimPrefix(d, "(define-fun ")
		if i := strings.IndexByte(t, ' '); i > 0 {
			return t[:i]
		}
		return t
	}
	inc := make([]bool, len(v.pureDefs))
	for changed := true; changed; {
		changed = false
		for i, d := range v.pureDefs {
			if !inc[i] && used[pureName(d)] {
				inc[i] = true
				identSet(d, used)
				changed = true
			}
		}
	}
	// canonical order: alphabetical, subject to "a definition comes after the pure functions it uses"
	var sel []string
	for i, d := range v.pureDefs {
		if inc[i] {
			sel = append(sel, d)
		}
	}
	sort.Slice(sel, func(i, j int) bool { return pureName(sel[i]) < pureName(sel[j]) })
	var pures strings.Builder
	emitted := map[string]bool{}
	for len(emitted) < len(sel) {
		progress := false
		for _, d := range sel {
			n := pureName(d)
			if emitted[n] {
				continue
			}
			ids := map[string]bool{}
			identSet(d, ids)
			ready := true
			for _, d2 := range sel {
				n2 := pureName(d2)
				if n2 != n && ids[n2] && !emitted[n2] {
					ready = false
					break
				}
			}
			if ready {
				pures.WriteString(d + "\n")
				emitted[n] = true
				progress = true
				break
			}
		}
		if !progress {
			break
		}
	}
	b.WriteString(v.g.PreambleFor(o.ExpSat, pures.String()+items.String()+o.Goal))
	b.WriteString(pures.String())
	b.WriteString(items.String())
	if o.ExpSat {
		b.WriteString("(assert " + o.Goal + ")\n")
	} else {
		b.WriteString("(assert (not " + o.Goal + "))\n")
	}
	b.WriteString("(check-sat)\n")
	if withModel && o.Root != nil && len(o.Root.inputs) > 0 && !o.NoModel {
		var ts []string
		for _, in := range o.Root.inputs {
			ts = append(ts, in.Term)
		}
		b.WriteString("(get-value (" + strings.Join(ts, " ") + "))\n")
	}
	return b.String()
}

func runSolver(s solverSpec, file string, timeoutS int) (string, string, float64) {
	ctx, cancel := context.WithTimeout(context.Background(), time.Duration(timeoutS+3)*time.Second)
	defer cancel()
	args := s.cmd(file, timeoutS)
	cmd := exec.CommandContext(ctx, args[0], args[1:]...)
	var out bytes.Buffer
	cmd.Stdout = &out
	cmd.Stderr = &out
	t0 := time.Now()
	_ = cmd.Run()
	secs := time.Since(t0).Seconds()
	text := out.String()
	first := ""
	for _, l := range strings.Split(text, "\n") {
		l = strings.TrimSpace(l)
		if l == "" || strings.HasPrefix(l, "WARNING") {
			continue
		}
		first = l
		break
	}
	switch first {
	case "sat", "unsat", "unknown":
		return first, text, secs
	case "timeout":
		return "unknown", text, secs
	}
	if ctx.Err() != nil || strings.Contains(text, "interrupted by timeout") {
		return "unknown", "timeout\n" + text, secs
	}
	return "error", text, secs
}

type attempt struct {
	label  string
	solver solverSpec
	file   string
	sliced bool
}

type attemptResult struct {
	a    attempt
	st   string
	out  string
	secs float64
}

func runSolverCtx(ctx context.Context, s solverSpec, file string, timeoutS int) (string, string, float64) {
	cctx, cancel := context.WithTimeout(ctx, time.Duration(timeoutS+3)*time.Second)
	defer cancel()
	args := s.cmd(file, timeoutS)
	cmd := exec.CommandContext(cctx, args[0], args[1:]...)
	var out bytes.Buffer
	cmd.Stdout = &out
	cmd.Stderr = &out
	t0 := time.Now()
	_ = cmd.Run()
	secs := time.Since(t0).Seconds()
	text := out.String()
	first := ""
	for _, l := range strings.Split(text, "\n") {
		l = strings.TrimSpace(l)
		if l == "" || strings.HasPrefix(l, "WARNING") {
			continue
		}
		first = l
		break
	}
	switch first {
	case "sat", "unsat", "unknown":
		return first, text, secs
	case "timeout":
		return "unknown", text, secs
	}
	if ctx.Err() != nil {
		return "cancelled", text, secs
	}
	if cctx.Err() != nil || strings.Contains(text, "interrupted by timeout") {
		return "unknown", "timeout\n" + text, secs
	}
	return "error", text, secs
}

// solveOne races the portfolio on one obligation: a relevance-sliced query (sound, fewer hypotheses) and the full query on
// all three solvers. The first decisive answer wins: unsat from any attempt proves; sat counts only from a full query.
func (v *Verifier) solveOne(o *Obligation, dir string, timeoutS int) *SolveResult {
	res := &SolveResult{Obl: o}
	if o.Static != "" {
		res.Status = o.Static
		res.Solver = "ssa-frame-analysis"
		if o.Kind == "lemma" {
			res.Solver = "lean-4-mathlib"
		}
		res.Output = o.StaticDetail
		res.Tried = []string{"ssa-frame-analysis:" + o.Static}
		return res
	}
	file := filepath.Join(dir, mangle(o.Name)+".smt2")
	text := v.smtText(o, true)
	res.Size = len(text)
	res.File = file
	if err := os.WriteFile(file, []byte(text), 0o644); err != nil {
		res.Status = "error"
		res.Output = err.Error()
		return res
	}
	want, bad := "unsat", "sat"
	if o.ExpSat {
		want, bad = "sat", "unsat"
	}
	var atts []attempt
	if o.ExpSat {
		// vacuity guards are few and their answer (a model) can take several seconds in the large handlers: both a longer
		// budget and a second solver, so that a loaded machine does not turn them into "unknown"
		timeoutS *= 3
		atts = append(atts, attempt{solvers[0].name, solvers[0], file, false})
		atts = append(atts, attempt{solvers[1].name, solvers[1], file, false})
	} else {
		if o.Root != nil && o.N > 60 {
			keep := o.Root.relevantAssumptions(o, 3, 2.0)
			sfile := filepath.Join(dir, mangle(o.Name)+".sliced.smt2")
			if os.WriteFile(sfile, []byte(v.smtTextKeep(o, false, keep)), 0o644) == nil {
				atts = append(atts, attempt{fmt.Sprintf("sliced(%d/%d)-%s", len(keep), o.N, solvers[0].name), solvers[0], sfile, true})
			}
			// a narrower slice (two relevance steps, rarest symbols only) for large functions
			if len(keep) > 120 {
				keep2 := o.Root.relevantAssumptions(o, 2, 1.0)
				if len(keep2) < len(keep)*2/3 {
					nfile := filepath.Join(dir, mangle(o.Name)+".narrow.smt2")
					if os.WriteFile(nfile, []byte(v.smtTextKeep(o, false, keep2)), 0o644) == nil {
						atts = append(atts, attempt{fmt.Sprintf("narrow(%d/%d)-%s", len(keep2), o.N, solvers[0].name), solvers[0], nfile, true})
					}
				}
			}
		}
		if o.Root != nil {
			if keep, ok := o.Root.coneAssumptions(o); ok {
				cfile := filepath.Join(dir, mangle(o.Name)+".cone.smt2")
				if os.WriteFile(cfile, []byte(v.smtTextKeep(o, false, keep)), 0o644) == nil {
					atts = append(atts, attempt{fmt.Sprintf("cone(%d/%d)-%s", len(keep), o.N, solvers[0].name), solvers[0], cfile, true})
					atts = append(atts, attempt{fmt.Sprintf("cone(%d/%d)-%s", len(keep), o.N, solvers[1].name), solvers[1], cfile, true})
				}
			}
		}
		for _, s := range solvers {
			atts = append(atts, attempt{s.name, s, file, false})
		}
	}
	ctx, cancel := context.WithCancel(context.Background())
	defer cancel()
	ch := make(chan attemptResult, len(atts))
	for _, a := range atts {
		go func(a attempt) {
			st, out, secs := runSolverCtx(ctx, a.solver, a.file, timeoutS)
			ch <- attemptResult{a, st, out, secs}
		}(a)
	}
	var lastOut string
	decided := false
	for i := 0; i < len(atts); i++ {
		r := <-ch
		if r.st == "cancelled" {
			continue
		}
		res.Secs += r.secs
		res.Tried = append(res.Tried, fmt.Sprintf("%s:%s:%.2fs", r.a.label, r.st, r.secs))
		if decided {
			continue
		}
		lastOut = r.out
		switch {
		case r.st == want:
			res.Status, res.Solver, res.Output = "proved", r.a.label, r.out
			decided = true
			cancel()
		case r.st == bad && !r.a.sliced:
			res.Status, res.Solver, res.Output = "failed", r.a.label, r.out
			if !o.ExpSat {
				res.Model = r.out
			}
			decided = true
			cancel()
		case r.st == "error" && r.a.solver.name == solvers[0].name && !r.a.sliced:
			res.Status, res.Solver, res.Output = "error", r.a.label, r.out
			// keep waiting: another solver may still decide
		}
	}
	if decided {
		return res
	}
	if res.Status == "error" {
		return res
	}
	res.Status = "unknown"
	res.Output = lastOut
	if !o.ExpSat {
		// candidate counterexample: the same query without quantified facts (weaker assumptions, so a model is only a
		// candidate and must be confirmed by replay on the real code)
		o2 := *o
		o2.ExpSat = true
		o2.Goal = "(not " + o.Goal + ")"
		cfile := filepath.Join(dir, mangle(o.Name)+".cand.smt2")
		if os.WriteFile(cfile, []byte(v.smtText(&o2, true)), 0o644) == nil {
			st, out, secs := runSolver(solvers[0], cfile, timeoutS)
			res.Secs += secs
			res.Tried = append(res.Tried, fmt.Sprintf("candidate-model:%s:%.2fs", st, secs))
			if st == "sat" {
				res.Candidate = out
			}
		}
	}
	return res
}

func (v *Verifier) solveAll(obls []*Obligation, dir string, timeoutS int, par int) []*SolveResult {
	os.MkdirAll(dir, 0o755)
	out := make([]*SolveResult, len(obls))
	var wg sync.WaitGroup
	sem := make(chan struct{}, par)
	for i, o := range obls {
		wg.Add(1)
		go func(i int, o *Obligation) {
			defer wg.Done()
			sem <- struct{}{}
			defer func() { <-sem }()
			out[i] = v.solveOne(o, dir, timeoutS)
		}(i, o)
	}
	wg.Wait()
	return out
}

func minInt(a, b int) int {
	if a < b {
		return a
	}
	return b
}
