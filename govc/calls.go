package main

// Call handling: resolution, contracts at call sites, inlining, external rules dispatch.

import (
	"fmt"
	"go/token"
	"go/types"
	"regexp"
	"strings"

	"golang.org/x/tools/go/ssa"
)

const repoMod = "github.com/SaoNetwork/sao"

func inRepo(fn *ssa.Function) bool {
	return fn != nil && fn.Pkg != nil && isRepoPath(fn.Pkg.Pkg.Path())
}

// funcKey gives the contract key of a function: pkgpath.Recv.Name
func funcKey(fn *ssa.Function) string {
	if fn == nil {
		return ""
	}
	pkg := ""
	if fn.Pkg != nil {
		pkg = fn.Pkg.Pkg.Path()
	} else if fn.Signature.Recv() != nil {
		// method of a type from another package (wrapper)
		if n := namedOf(fn.Signature.Recv().Type()); n != nil && n.Obj().Pkg() != nil {
			pkg = n.Obj().Pkg().Path()
		}
	}
	if recv := fn.Signature.Recv(); recv != nil {
		if n := namedOf(recv.Type()); n != nil {
			return pkg + "." + n.Obj().Name() + "." + fn.Name()
		}
	}
	return pkg + "." + fn.Name()
}

func namedOf(t types.Type) *types.Named {
	t = types.Unalias(t)
	if p, ok := t.(*types.Pointer); ok {
		t = types.Unalias(p.Elem())
	}
	n, _ := t.(*types.Named)
	return n
}

// extName gives the name used to look up external rules: "pkg.Func" or "(pkg.Type).Method" / "(*pkg.Type).Method"
func extNameOf(fn *ssa.Function) string {
	if recv := fn.Signature.Recv(); recv != nil {
		if n := namedOf(recv.Type()); n != nil {
			p := ""
			if n.Obj().Pkg() != nil {
				p = n.Obj().Pkg().Path() + "."
			}
			return "(" + p + n.Obj().Name() + ")." + fn.Name()
		}
	}
	if fn.Pkg != nil {
		return fn.Pkg.Pkg.Path() + "." + fn.Name()
	}
	return fn.String()
}

func calleeName(c *ssa.CallCommon, e *Enc) string {
	if c.IsInvoke() {
		n := namedOf(c.Value.Type())
		if n != nil {
			p := ""
			if n.Obj().Pkg() != nil {
				p = n.Obj().Pkg().Path() + "."
			}
			return "(" + p + n.Obj().Name() + ")." + c.Method.Name()
		}
		return "(interface)." + c.Method.Name()
	}
	if fn := c.StaticCallee(); fn != nil {
		return extNameOf(fn)
	}
	if b, ok := c.Value.(*ssa.Builtin); ok {
		return "builtin." + b.Name()
	}
	if n, ok := e.funcs[c.Value]; ok {
		return n
	}
	return "dynamic"
}

type callCtx struct {
	e    *Enc
	ins  ssa.Instruction
	c    *ssa.CallCommon
	val  ssa.Value // the call value (nil for defer)
	name string
	args []ssa.Value // including receiver for methods / invoke
	sig  *types.Signature
}

func (cc *callCtx) arg(i int) string { return cc.e.val(cc.args[i]) }
func (cc *callCtx) loc(i int) *Loc   { return cc.e.locOf(cc.args[i]) }
func (cc *callCtx) nargs() int       { return len(cc.args) }
func (cc *callCtx) resType(i int) types.Type {
	r := cc.sig.Results()
	return r.At(i).Type()
}

// setResults binds the results of a call instruction.
func (e *Enc) setResults(x ssa.Value, sig *types.Signature, res []string) {
	if x == nil {
		return
	}
	n := sig.Results().Len()
	switch {
	case n == 0:
	case n == 1:
		if len(res) < 1 {
			e.vals[x] = e.havoc(sig.Results().At(0).Type(), "res")
		} else {
			e.vals[x] = res[0]
		}
	default:
		for len(res) < n {
			res = append(res, e.havoc(sig.Results().At(len(res)).Type(), "res"))
		}
		e.tuples[x] = res
	}
}

func (e *Enc) call(x *ssa.Call) {
	c := &x.Call
	name := calleeName(c, e)
	var args []ssa.Value
	if c.IsInvoke() {
		args = append(args, c.Value)
	}
	args = append(args, c.Args...)
	cc := &callCtx{e: e, ins: x, c: c, val: x, name: name, args: args, sig: c.Signature()}

	// builtins
	if b, ok := c.Value.(*ssa.Builtin); ok {
		e.builtin(x, b, cc)
		return
	}
	e.callSiteAsserts(x, cc)
	// closures created in this function: inline
	if mc, ok := e.closures()[c.Value]; ok {
		fn := mc.Fn.(*ssa.Function)
		if _, order := findLoops(fn); len(order) > 0 {
			// a closure with a loop cannot be inlined (its loop has no place for invariants). It is abstracted by its write
			// set instead: accepted only if it writes nothing but captured variables and its own locals and calls only
			// effect-free callees; the captured variables it writes are havocked and its results are unconstrained.
			if e.abstractClosureCall(x, fn, mc, cc) {
				return
			}
		}
		var as []string
		for _, a := range c.Args {
			as = append(as, e.val(a))
		}
		res := e.inline(fn, as, c.Args, mc.Bindings)
		e.setResults(x, cc.sig, res)
		return
	}
	var callee *ssa.Function
	if c.IsInvoke() {
		callee = e.r.v.resolveInvoke(e, c)
	} else {
		callee = c.StaticCallee()
	}
	if callee != nil && inRepo(callee) {
		e.repoCall(x, callee, cc)
		return
	}
	if callee != nil {
		cc.name = extNameOf(callee)
		if c.IsInvoke() {
			// keep interface-qualified name as first choice
			if e.extCall(x, cc, name) {
				return
			}
		}
	}
	if e.extCall(x, cc, cc.name) {
		return
	}
	if isSinkName(cc.name) || isSinkName(name) {
		e.sinkCall(x, cc)
		return
	}
	if e.pureExternal(x, cc) {
		return
	}
	e.r.errorf("unmodelled callee: %s (called from %s)", cc.name, e.fn.Name())
	e.sinkCall(x, cc)
}

// sinkCall: effect-free call with unspecified results.
func (e *Enc) sinkCall(x ssa.Value, cc *callCtx) {
	var res []string
	for i := 0; i < cc.sig.Results().Len(); i++ {
		res = append(res, e.havoc(cc.sig.Results().At(i).Type(), "sink"))
	}
	e.setResults(x, cc.sig, res)
}

func (e *Enc) builtin(x *ssa.Call, b *ssa.Builtin, cc *callCtx) {
	g := e.g()
	switch b.Name() {
	case "len":
		a := cc.args[0]
		s := g.SortOf(a.Type())
		switch {
		case s == sortStr:
			e.vals[x] = e.r.def(e.name(x), "Int", fmt.Sprintf("(strlen %s)", e.val(a)))
		case g.sliceElem[s] != "":
			e.vals[x] = e.r.def(e.name(x), "Int", fmt.Sprintf("(%s_len %s)", s, e.val(a)))
		case g.mapKV[s] != [2]string{}:
			fn := "maplen_" + s
			g.DeclFun(fn, []string{s}, "Int")
			r := e.r.def(e.name(x), "Int", fmt.Sprintf("(%s %s)", fn, e.mapTerm(a)))
			e.r.assume(fmt.Sprintf("(>= %s 0)", r))
			e.vals[x] = r
		default:
			e.r.errorf("outside subset: len of %s", a.Type())
			e.vals[x] = e.havoc(x.Type(), "len")
		}
	case "cap":
		r := e.havoc(x.Type(), "cap")
		s := g.SortOf(cc.args[0].Type())
		e.r.assume(fmt.Sprintf("(>= %s (%s_len %s))", r, s, e.val(cc.args[0])))
		e.vals[x] = r
	case "append":
		e.appendBuiltin(x, cc)
	case "delete":
		l := e.mapLoc(cc.args[0])
		if l == nil {
			e.r.errorf("outside subset: delete on non-local map")
			return
		}
		s := g.SortOf(cc.args[0].Type())
		m, _ := e.load(l)
		e.store(l, fmt.Sprintf("(mk_%s (%s_val %s) (store (%s_dom %s) %s false) (%s_nil %s))", s, s, m, s, m, e.val(cc.args[1]), s, m))
	case "copy":
		e.r.errorf("outside subset: copy() in %s", e.fn.Name())
		e.vals[x] = e.havoc(x.Type(), "copy")
	case "print", "println":
	case "min", "max":
		a, bb := e.val(cc.args[0]), e.val(cc.args[1])
		f := "imin"
		if b.Name() == "max" {
			f = "imax"
		}
		e.vals[x] = e.r.def(e.name(x), "Int", fmt.Sprintf("(%s %s %s)", f, a, bb))
	default:
		e.r.errorf("outside subset: builtin %s", b.Name())
		if x.Type() != nil {
			e.vals[x] = e.havoc(x.Type(), "bi")
		}
	}
}

// append(s, elems...) with value semantics: result = s ++ t. In-place aliasing with the argument's backing array is not
// modelled (see DESIGN: slices are values); the engine rejects later reads of a slice that was appended to through a
// shorter view only in the patterns it can see (none in the functions under contract).
func (e *Enc) appendBuiltin(x *ssa.Call, cc *callCtx) {
	g := e.g()
	// in-place append through a shorter view of a slice writes the shared backing array. Value semantics are faithful only
	// if no alias of that backing array is read afterwards; otherwise the function is outside the subset.
	if sl, ok := cc.args[0].(*ssa.Slice); ok && sl.High != nil {
		if _, isSlice := types.Unalias(sl.X.Type()).Underlying().(*types.Slice); isSlice {
			if u := aliasReadAfter(x, sl.X); u != "" {
				e.r.errorf("outside subset: in-place append through a sub-slice while an alias of the backing array is still read (%s) in %s", u, e.fn.Name())
			}
		}
	}
	// idiom append(s[:i], s[i+1:]...): removal of element i, encoded with a single quantified definition
	if s0, ok := cc.args[0].(*ssa.Slice); ok && s0.Low == nil && s0.High != nil {
		if s1, ok := cc.args[1].(*ssa.Slice); ok && s1.X == s0.X && s1.High == nil && s1.Low != nil {
			if add, ok := s1.Low.(*ssa.BinOp); ok && add.Op == token.ADD && add.X == s0.High {
				if c, ok := constInt(add.Y); ok && c == 1 {
					srt := g.SortOf(x.Type())
					es := g.sliceElem[srt]
					old := e.val(s0.X)
					i := e.val(s0.High)
					arr := e.r.decl(e.r.fresh(e.name(x)+"_arr"), fmt.Sprintf("(Array Int %s)", es))
					e.r.assume(fmt.Sprintf("(forall ((k!a Int)) (! (= (select %s k!a) (ite (< k!a %s) (select (%s_arr %s) k!a) (select (%s_arr %s) (+ k!a 1)))) :pattern ((select %s k!a))))",
						arr, i, srt, old, srt, old, arr))
					e.vals[x] = e.r.def(e.name(x), srt, fmt.Sprintf("(mk_%s %s (- (%s_len %s) 1) false)", srt, arr, srt, old))
					he := g.HasElem(srt)
					e.r.assume(fmt.Sprintf("(forall ((v!m %s)) (! (=> (%s %s v!m) (%s %s v!m)) :pattern ((%s %s v!m))))", es, he, e.vals[x], he, old, he, e.vals[x]))
					// ... and every member of the old slice other than the removed element stays a member (element k of the old
					// slice sits at k or k-1; 0 <= i < len(old) by the bounds checks of the two slice expressions)
					e.r.assume(fmt.Sprintf("(forall ((v!m %s)) (! (=> (and (%s %s v!m) (not (= v!m (select (%s_arr %s) %s)))) (%s %s v!m)) :pattern ((%s %s v!m))))",
						es, he, old, srt, old, i, he, e.vals[x], he, old))
					return
				}
			}
		}
	}
	s := g.SortOf(x.Type())
	es := g.sliceElem[s]
	a := e.val(cc.args[0])
	bT := types.Unalias(cc.args[1].Type())
	var b string
	if g.SortOf(bT) == sortStr { // append([]byte, string...)
		g.DeclFun("str2bytes", []string{"Str"}, s)
		b = fmt.Sprintf("(str2bytes %s)", e.val(cc.args[1]))
	} else {
		b = e.val(cc.args[1])
	}
	bl := e.r.def(e.name(x)+"_bl", "Int", fmt.Sprintf("(%s_len %s)", s, b))
	al := e.r.def(e.name(x)+"_al", "Int", fmt.Sprintf("(%s_len %s)", s, a))
	// appending a single-element or literal slice: unfold into stores when length is syntactically known
	if n, elems, ok := e.literalSlice(cc.args[1]); ok {
		arr := fmt.Sprintf("(%s_arr %s)", s, a)
		for i := 0; i < n; i++ {
			arr = fmt.Sprintf("(store %s (+ %s %d) %s)", arr, al, i, elems[i])
		}
		nilv := "false"
		if n == 0 {
			nilv = fmt.Sprintf("(%s_nil %s)", s, a)
		}
		e.vals[x] = e.r.def(e.name(x), s, fmt.Sprintf("(mk_%s %s (+ %s %d) %s)", s, arr, al, n, nilv))
		// membership lemma (follows from the definition of has_elem): members of the result = members of a, plus the new elements
		he := g.HasElem(s)
		var eqs []string
		eqs = append(eqs, fmt.Sprintf("(%s %s v!m)", he, a))
		for i := 0; i < n; i++ {
			eqs = append(eqs, fmt.Sprintf("(= v!m %s)", elems[i]))
		}
		e.r.assume(fmt.Sprintf("(forall ((v!m %s)) (! (= (%s %s v!m) %s) :pattern ((%s %s v!m)) :pattern ((%s %s v!m))))", es, he, e.vals[x], orTerms(eqs), he, e.vals[x], he, a))
		return
	}
	// an argument that is a view base[lo:hi] of a slice: every element of the base inside the window is a member of the view
	// (follows from the definition of the view; stated because the index shift defeats pattern-based instantiation)
	for ai := 0; ai < 2; ai++ {
		if sl, ok := cc.args[ai].(*ssa.Slice); ok {
			if _, isSlice := types.Unalias(sl.X.Type()).Underlying().(*types.Slice); isSlice && g.SortOf(sl.X.Type()) == s {
				base := e.val(sl.X)
				lo, hi := "0", fmt.Sprintf("(%s_len %s)", s, base)
				if sl.Low != nil {
					lo = e.val(sl.Low)
				}
				if sl.High != nil {
					hi = e.val(sl.High)
				}
				he := g.HasElem(s)
				e.r.assume(fmt.Sprintf("(forall ((k!w Int)) (! (=> (and (<= %s k!w) (< k!w %s)) (%s %s (select (%s_arr %s) k!w))) :pattern ((select (%s_arr %s) k!w))))",
					lo, hi, he, e.val(cc.args[ai]), s, base, s, base))
			}
		}
	}
	arr := e.r.decl(e.r.fresh(e.name(x)+"_arr"), fmt.Sprintf("(Array Int %s)", es))
	e.r.assume(fmt.Sprintf("(forall ((k!a Int)) (! (= (select %s k!a) (ite (< k!a %s) (select (%s_arr %s) k!a) (select (%s_arr %s) (- k!a %s)))) :pattern ((select %s k!a))))",
		arr, al, s, a, s, b, al, arr))
	e.vals[x] = e.r.def(e.name(x), s, fmt.Sprintf("(mk_%s %s (+ %s %s) (and (%s_nil %s) (= %s 0)))", s, arr, al, bl, s, a, bl))
	{
		he := g.HasElem(s)
		e.r.assume(fmt.Sprintf("(forall ((v!m %s)) (! (= (%s %s v!m) (or (%s %s v!m) (%s %s v!m))) :pattern ((%s %s v!m))))", es, he, e.vals[x], he, a, he, b, he, e.vals[x]))
	}
}

// literalSlice recognises `slice t[:]` of a freshly allocated array whose elements were stored one by one (varargs / composite literal).
func (e *Enc) literalSlice(v ssa.Value) (int, []string, bool) {
	sl, ok := v.(*ssa.Slice)
	if !ok || sl.Low != nil || sl.High != nil {
		if c, ok := v.(*ssa.Const); ok && c.Value == nil {
			return 0, nil, true
		}
		return 0, nil, false
	}
	al, ok := sl.X.(*ssa.Alloc)
	if !ok {
		return 0, nil, false
	}
	at, ok := al.Type().(*types.Pointer).Elem().Underlying().(*types.Array)
	if !ok || at.Len() > 64 {
		return 0, nil, false
	}
	s := e.g().SortOf(v.Type())
	cur := e.val(v)
	var elems []string
	for i := 0; i < int(at.Len()); i++ {
		elems = append(elems, fmt.Sprintf("(select (%s_arr %s) %d)", s, cur, i))
	}
	return int(at.Len()), elems, true
}

// ---------------------------------------------------------------------------------------------
// calls into /repo

func (e *Enc) repoCall(x *ssa.Call, callee *ssa.Function, cc *callCtx) {
	v := e.r.v
	key := funcKey(callee)
	ct := v.specs.Contracts[key]
	if ct == nil {
		if rule, ok := v.repoRule(callee); ok {
			cc.name = key
			res, ok2 := rule(cc)
			if ok2 {
				e.g().usedExt["repo-trusted:"+key] = true
				e.setResults(x, cc.sig, res)
				return
			}
		}
		// inline
		if e.depth >= 6 {
			e.r.errorf("needs contract: inlining depth exceeded at %s", key)
			e.sinkCall(x, cc)
			return
		}
		if callee.Blocks == nil {
			e.r.errorf("unmodelled callee: %s has no body", key)
			e.sinkCall(x, cc)
			return
		}
		var as []string
		for _, a := range cc.args {
			as = append(as, e.val(a))
		}
		res := e.inline(callee, as, cc.args, nil)
		e.setResults(x, cc.sig, res)
		return
	}
	e.contractCall(x, callee, ct, cc)
}

// inline encodes the callee body in place.
func (e *Enc) inline(callee *ssa.Function, args []string, argVals []ssa.Value, bindings []ssa.Value) []string {
	r := e.r
	r.uniq++
	child := &Enc{r: r, fn: callee, vals: map[ssa.Value]string{}, tuples: map[ssa.Value][]string{}, locs: map[ssa.Value]*Loc{},
		funcs: map[ssa.Value]string{}, reach: map[*ssa.BasicBlock]string{}, stOut: map[*ssa.BasicBlock]map[string]string{},
		guard: e.reach[e.cur], depth: e.depth + 1, pfx: fmt.Sprintf("%s%d_", shortFn(callee), r.uniq), params: map[string]string{}}
	for i, p := range callee.Params {
		if i < len(args) {
			child.vals[p] = args[i]
			// pointer arguments: pass symbolic locations through when we have them (interior pointers)
			if i < len(argVals) {
				if l, ok := e.locs[argVals[i]]; ok && l != nil {
					child.locs[p] = l
				}
				if f, ok := e.funcs[argVals[i]]; ok {
					child.funcs[p] = f
				}
				if mc, ok := e.closures()[argVals[i]]; ok {
					child.closures()[p] = mc
				}
			}
		}
	}
	for i, fv := range callee.FreeVars {
		if i < len(bindings) {
			child.vals[fv] = e.val(bindings[i])
			if l, ok := e.locs[bindings[i]]; ok && l != nil {
				child.locs[fv] = l
			}
		}
	}
	child.entrySt = e.st
	r.comment("inline " + callee.String())
	child.encodeBody()
	// merge returns
	if len(child.rets) == 0 {
		// no normal return (always panics): continuation unreachable
		r.assume(fmt.Sprintf("(not %s)", e.reach[e.cur]))
		var res []string
		for i := 0; i < callee.Signature.Results().Len(); i++ {
			res = append(res, e.havoc(callee.Signature.Results().At(i).Type(), "nores"))
		}
		return res
	}
	var conds []string
	var sts []map[string]string
	for _, rt := range child.rets {
		conds = append(conds, rt.reach)
		sts = append(sts, rt.st)
	}
	e.st = child.mergeStates(conds, sts)
	// the call returns along exactly one of the return paths (panicking paths are assumed away / obligations)
	if len(conds) > 1 {
		r.assume(fmt.Sprintf("(=> %s %s)", e.reach[e.cur], orTerms(conds)))
	} else {
		r.assume(fmt.Sprintf("(=> %s %s)", e.reach[e.cur], conds[0]))
	}
	var res []string
	for i := 0; i < callee.Signature.Results().Len(); i++ {
		var vs []string
		for _, rt := range child.rets {
			vs = append(vs, rt.vals[i])
		}
		res = append(res, r.def(child.pfx+fmt.Sprintf("ret%d", i), e.g().SortOf(callee.Signature.Results().At(i).Type()), iteChain(conds, vs)))
	}
	r.comment("end inline " + callee.String())
	return res
}

func shortFn(fn *ssa.Function) string {
	return mangle(fn.Name())
}

// contractCall: assert requires, havoc modifies, assume ensures.
func (e *Enc) contractCall(x *ssa.Call, callee *ssa.Function, ct *Contract, cc *callCtx) {
	r := e.r
	reach := e.reach[e.cur]
	r.comment(fmt.Sprintf("call %s (contract)", ct.Key))
	if ct.Trusted {
		e.g().usedExt["trusted-contract:"+ct.Key] = true
	}
	r.v.noteCallee(r, ct)
	// bind parameters
	vars := map[string]SV{}
	for i, p := range callee.Params {
		nm := p.Name()
		if i < len(cc.args) {
			vars[nm] = SV{t: e.val(cc.args[i]), sort: e.g().SortOf(p.Type()), gt: p.Type()}
		}
	}
	pre := copyState(e.st)
	env := &SpecEnv{e: e, vars: vars, cur: pre, old: pre, errCtx: "call " + ct.Key + " requires", noLocals: true}
	for i, rq := range ct.Requires {
		t := env.boolExpr(rq.E)
		r.addObl(&Obligation{Name: fmt.Sprintf("%s#pre@%s.%d", r.fnShort, ct.shortName(), i+1), Kind: "pre", Tags: rq.Tags,
			Goal: fmt.Sprintf("(=> %s %s)", reach, t), Src: "requires " + rq.Src + " [of " + ct.Key + "]"})
		r.assume(fmt.Sprintf("(=> %s %s)", reach, t))
	}
	if r.nopanic {
		if len(ct.NoPanic) == 0 && !ct.Functional && !isAccessorLike(ct) {
			r.errorf("nopanic: callee %s (called from %s) carries no nopanic clause; its panics would be invisible here", ct.Key, e.fn.Name())
		}
		for i, np := range ct.NoPanic {
			if np.E == nil {
				continue
			}
			t := env.boolExpr(np.E)
			r.addObl(&Obligation{Name: fmt.Sprintf("%s#pre@%s.nopanic%d", r.fnShort, ct.shortName(), i+1), Kind: "pre", Tags: np.Tags,
				Goal: fmt.Sprintf("(=> %s %s)", reach, t), Src: "nopanic when " + np.Src + " [of " + ct.Key + "]"})
			r.assume(fmt.Sprintf("(=> %s %s)", reach, t))
		}
	}
	// havoc modifies
	e.havocModifies(ct, env, pre)
	// results
	var res []string
	sig := callee.Signature
	for i := 0; i < sig.Results().Len(); i++ {
		rt := sig.Results().At(i).Type()
		c := e.havoc(rt, e.pfx+"r_"+mangle(callee.Name()))
		res = append(res, c)
		if _, isPtr := types.Unalias(rt).Underlying().(*types.Pointer); isPtr {
			// a returned pointer is nil, a cell that existed before the call or one the callee allocated: in every case
			// below the allocation counter after the call, hence distinct from every cell allocated later
			r.assume(fmt.Sprintf("(and (<= 0 %s) (< %s %s))", c, c, e.getNextRef()))
		}
		nm := ""
		if i < len(ct.Results) {
			nm = ct.Results[i]
		} else if sig.Results().At(i).Name() != "" {
			nm = sig.Results().At(i).Name()
		}
		if nm != "" {
			vars[nm] = SV{t: c, sort: e.g().SortOf(rt), gt: rt}
		}
	}
	if ct.Functional && len(res) == 1 {
		// deterministic function of its arguments: the result is F(args)
		var as, sorts []string
		for i := range callee.Params {
			if i < len(cc.args) {
				as = append(as, e.val(cc.args[i]))
				sorts = append(sorts, e.g().SortOf(callee.Params[i].Type()))
			}
		}
		fname := functionalName(ct)
		e.g().DeclFun(fname, sorts, e.g().SortOf(sig.Results().At(0).Type()))
		r.assume(fmt.Sprintf("(=> %s (= %s (%s %s)))", reach, res[0], fname, strings.Join(as, " ")))
	}
	post := &SpecEnv{e: e, vars: vars, cur: nil, old: pre, errCtx: "call " + ct.Key + " ensures", noLocals: true}
	calleeShort := pkgShort(ct.Pkg) + "." + ct.shortName()
	for i, en := range ct.Ensures {
		oname := fmt.Sprintf("%s#ensures@%s", calleeShort, en.Name())
		if en.Name() == "" {
			oname = fmt.Sprintf("%s#ensures@wf%d", calleeShort, i+1)
		}
		if r.v.isKnownFinding(oname) || r.v.isKnownFinding(oname+".ret1") {
			r.comment("postcondition " + oname + " is a listed known finding: not assumed")
			continue
		}
		t := post.boolExpr(en.E)
		r.assume(fmt.Sprintf("(=> %s %s)", reach, t))
	}
	e.setResults(x, cc.sig, res)
}

func (ct *Contract) shortName() string {
	if ct.Recv != "" {
		return ct.Recv + "." + ct.Func
	}
	return ct.Func
}

// modItem describes one modifies entry resolved against a state.
type modItem struct {
	state string // state var name
	key   string // point key term ("" = whole variable)
}

func (e *Enc) resolveModifies(ct *Contract, env *SpecEnv) []modItem {
	var items []modItem
	for _, m := range ct.Modifies {
		x := m.E
		switch {
		case x.Op == "id" && x.S == "Bank":
			e.ensureState("bank", "(Array Addr (Array Str Int))")
			items = append(items, modItem{state: "bank"})
		case x.Op == "id" && x.S == "nothing":
		case x.Op == "id" && e.r.v.specs.Stores[x.S] != nil:
			sd := e.r.v.specs.Stores[x.S]
			env.storeArr(sd)
			if strings.HasPrefix(sd.KeyFun, "str:") || sd.KeyFun == "byte0" {
				// singleton store under a constant key: only that raw key changes
				items = append(items, modItem{state: sd.KV, key: env.storeKey(sd, nil)})
			} else {
				items = append(items, modItem{state: sd.KV})
			}
		case x.Op == "index" && x.Args[0].Op == "id" && x.Args[0].S == "Bank":
			e.ensureState("bank", "(Array Addr (Array Str Int))")
			k := env.expr(x.Args[1])
			items = append(items, modItem{state: "bank", key: k.t})
		case x.Op == "index" && x.Args[0].Op == "id" && e.r.v.specs.Stores[x.Args[0].S] != nil:
			sd := e.r.v.specs.Stores[x.Args[0].S]
			env.storeArr(sd)
			k := env.expr(x.Args[1])
			items = append(items, modItem{state: sd.KV, key: env.storeKey(sd, []SV{k})})
		case x.Op == "un" && x.S == "*":
			p := env.expr(x.Args[0])
			if p.gt == nil {
				env.fail("modifies *p: untyped pointer")
				continue
			}
			pt, ok := types.Unalias(p.gt).Underlying().(*types.Pointer)
			if !ok {
				env.fail("modifies *p: not a pointer")
				continue
			}
			items = append(items, modItem{state: e.heapFor(pt.Elem()), key: p.t})
		case x.Op == "call" && x.S == "heap" && len(x.Args) == 1 && x.Args[0].Op == "id":
			_, gt := env.namedSort(x.Args[0].S)
			if gt != nil {
				items = append(items, modItem{state: e.heapFor(gt)})
			}
		case x.Op == "call" && x.S == "global" && len(x.Args) == 1 && x.Args[0].Op == "str":
			items = append(items, modItem{state: "glob:" + x.Args[0].S})
		case x.Op == "call" && x.S == "state" && len(x.Args) == 1 && x.Args[0].Op == "str":
			items = append(items, modItem{state: x.Args[0].S})
		default:
			env.fail("unsupported modifies item %q", m.Src)
		}
	}
	return items
}

func (e *Enc) havocModifies(ct *Contract, env *SpecEnv, pre map[string]string) {
	r := e.r
	reach := e.reach[e.cur]
	_ = reach
	if ct.ModAll {
		// 'modifies *': every persistent state (stores, bank, params, package-level variables) may change. Heap cells of the
		// caller cannot be reached by a callee without pointer parameters (keepers hold no pointers into handler memory).
		if fn := r.v.findFunc(ct); fn != nil {
			for i, p := range fn.Params {
				if i == 0 && fn.Signature.Recv() != nil {
					continue
				}
				switch types.Unalias(p.Type()).Underlying().(type) {
				case *types.Pointer, *types.Slice, *types.Map:
					r.errorf("call to %s with 'modifies *' and reference parameter %s is not supported at call sites", ct.Key, p.Name())
					return
				}
			}
		}
		r.callsModAll = true
		e.ensureState("nextRef", "Int")
		oldNR := e.getState("nextRef")
		nr := r.decl(r.fresh("nextRef"), "Int")
		r.assume(fmt.Sprintf("(>= %s %s)", nr, oldNR))
		e.setStateRaw("nextRef", nr)
		for _, st := range sortedKeys(r.stSort) {
			if !(strings.HasPrefix(st, "kv:") || st == "bank" || strings.HasPrefix(st, "param:") || strings.HasPrefix(st, "glob:")) {
				continue
			}
			e.ensureState(st, r.stSort[st])
			e.setStateRaw(st, r.decl(r.fresh("hv_"+mangle(st)), r.stSort[st]))
		}
		return
	}
	items := e.resolveModifies(ct, env)
	by := map[string][]modItem{}
	var order []string
	for _, it := range items {
		if _, ok := by[it.state]; !ok {
			order = append(order, it.state)
		}
		by[it.state] = append(by[it.state], it)
	}
	// callee may allocate: nextRef grows
	e.ensureState("nextRef", "Int")
	oldNR := e.getState("nextRef")
	nr := r.decl(r.fresh("nextRef"), "Int")
	r.assume(fmt.Sprintf("(>= %s %s)", nr, oldNR))
	e.setStateRaw("nextRef", nr)
	for _, st := range order {
		srt, ok := r.stSort[st]
		if !ok {
			continue
		}
		oldT := e.getState(st)
		nv := r.decl(r.fresh("hv_"+mangle(st)), srt)
		whole := false
		for _, it := range by[st] {
			if it.key == "" {
				whole = true
			}
		}
		if !whole {
			if strings.HasPrefix(st, "heap:") {
				// cells other than the listed ones keep their value (cells allocated by the callee are fresh: >= old nextRef)
				var neqs []string
				for _, it := range by[st] {
					neqs = append(neqs, fmt.Sprintf("(not (= r!m %s))", it.key))
				}
				r.assume(fmt.Sprintf("(forall ((r!m Int)) (! (=> (and (< r!m %s) %s) (= (select %s r!m) (select %s r!m))) :pattern ((select %s r!m))))",
					oldNR, andTerms(neqs), nv, oldT, nv))
			} else {
				chain := oldT
				for _, it := range by[st] {
					chain = fmt.Sprintf("(store %s %s (select %s %s))", chain, it.key, nv, it.key)
				}
				r.assume(fmt.Sprintf("(= %s %s)", nv, chain))
			}
		}
		e.setStateRaw(st, nv)
	}
	// heaps not listed: callee may still allocate fresh cells; pre-existing cells unchanged. We keep the same term
	// (fresh cells are unobservable to the caller unless returned; returning pointers requires listing the heap).
}

func (e *Enc) setStateRaw(name, term string) {
	if e.r.writeLog[name] == nil {
		e.r.writeLog[name] = map[int]bool{}
	}
	e.r.writeLog[name][e.r.curBlock] = true
	e.st[name] = term
}

func functionalName(ct *Contract) string { return "fn_" + mangle(pkgShort(ct.Pkg)+"_"+ct.shortName()) }

// callSiteAsserts: "at Callee assert expr" clauses of the function under verification. The expression sees the callee's
// parameter names bound to the actual arguments, the caller's parameters and local variables by source name, and the state
// at the call.
func (e *Enc) callSiteAsserts(x *ssa.Call, cc *callCtx) {
	if e.depth != 0 || e.ct == nil || len(e.ct.CallAsserts) == 0 {
		return
	}
	var callee *ssa.Function
	if cc.c.IsInvoke() {
		callee = e.r.v.resolveInvoke(e, cc.c)
	} else {
		callee = cc.c.StaticCallee()
	}
	name := ""
	if cc.c.IsInvoke() {
		name = cc.c.Method.Name()
	} else {
		if callee == nil {
			return
		}
		name = callee.Name()
	}
	// the ordinal of this call among the calls of that name in the function (encoding order), counted once per call
	siteKey := "callsite:" + name
	e.r.siteCnt[siteKey]++
	n := e.r.siteCnt[siteKey]
	for _, ca := range e.ct.CallAsserts {
		if ca.Callee != name {
			continue
		}
		if ca.Site != 0 && ca.Site != n {
			continue
		}
		e.r.siteCnt["matched:"+ca.C.Src]++
		extra := map[string]SV{}
		if callee != nil {
			for i, p := range callee.Params {
				if i < len(cc.args) {
					extra[p.Name()] = SV{t: e.val(cc.args[i]), sort: e.g().SortOf(p.Type()), gt: p.Type()}
				}
			}
		}
		env := e.specEnv(e.cur, extra)
		env.errCtx = "call-site assert at " + name
		var inner *loopInfo
		for _, li := range e.loops {
			if li.body[e.cur] && li.headSt != nil && (inner == nil || len(li.body) < len(inner.body)) {
				inner = li
			}
		}
		if inner != nil {
			// persistent and heap state as at the head of this iteration; local variables as they are now (a local read inside
			// iter() names the same value as outside)
			env.iter = copyState(inner.headSt)
			for k, v := range e.st {
				if strings.HasPrefix(k, "loc:") {
					env.iter[k] = v
				}
			}
		}
		t := env.boolExpr(ca.C.E)
		nm := ca.C.Name()
		if nm == "" {
			nm = "wf"
		}
		oname := fmt.Sprintf("%s#assert@%s.%s", e.r.fnShort, name, nm)
		e.r.addObl(&Obligation{Name: oname, Kind: "assert", Tags: ca.C.Tags,
			Goal: fmt.Sprintf("(=> %s %s)", e.reach[e.cur], t), Src: "at " + name + " assert " + ca.C.Src})
		// checked here, available afterwards (an assertion that is a listed finding is not assumed)
		if !e.r.v.isKnownFinding(oname) {
			e.r.assume(fmt.Sprintf("(=> %s %s)", e.reach[e.cur], t))
		}
	}
}

// isAccessorLike: scaffolded accessors generated by the "accessor" macro are verified with nopanic semantics implicitly
// (their bodies contain no panicking operation other than store access, see verify.go: accessors are always nopanic).
func isAccessorLike(ct *Contract) bool { return ct.Accessor }

// ---- aliasing check for in-place appends

func sliceBase(v ssa.Value) ssa.Value {
	for {
		sl, ok := v.(*ssa.Slice)
		if !ok {
			return v
		}
		if _, isSlice := types.Unalias(sl.X.Type()).Underlying().(*types.Slice); !isSlice {
			return v
		}
		v = sl.X
	}
}

// addrSig: a textual signature of an address expression built from an Alloc/parameter and field selections.
func addrSig(v ssa.Value) string {
	switch a := v.(type) {
	case *ssa.FieldAddr:
		return addrSig(a.X) + fmt.Sprintf(".%d", a.Field)
	case *ssa.Alloc, *ssa.Parameter, *ssa.Global:
		return v.Name()
	}
	return ""
}

// aliasReadAfter reports a use of a may-alias of slice value X that can execute after the append instruction p.
func aliasReadAfter(p *ssa.Call, X ssa.Value) string {
	fn := p.Parent()
	base := sliceBase(X)
	aliases := map[ssa.Value]bool{base: true}
	if ld, ok := base.(*ssa.UnOp); ok {
		if sig := addrSig(ld.X); sig != "" {
			for _, b := range fn.Blocks {
				for _, ins := range b.Instrs {
					if u, ok := ins.(*ssa.UnOp); ok && addrSig(u.X) == sig && types.Identical(u.Type(), ld.Type()) {
						aliases[u] = true
					}
				}
			}
		}
	}
	// derived sub-slices
	changed := true
	for changed {
		changed = false
		for _, b := range fn.Blocks {
			for _, ins := range b.Instrs {
				if sl, ok := ins.(*ssa.Slice); ok && aliases[sl.X] && !aliases[sl] {
					aliases[sl] = true
					changed = true
				}
			}
		}
	}
	isArg := map[ssa.Value]bool{}
	for _, a := range p.Call.Args {
		isArg[a] = true
	}
	for al := range aliases {
		var defBlock *ssa.BasicBlock
		if ins, ok := al.(ssa.Instruction); ok {
			defBlock = ins.Block()
		}
		refs := al.Referrers()
		if refs == nil {
			continue
		}
		for _, u := range *refs {
			if u == ssa.Instruction(p) {
				continue
			}
			if sl, ok := u.(*ssa.Slice); ok && aliases[sl] {
				continue // creating a sub-slice is not a read; its own uses are checked
			}
			if _, ok := u.(*ssa.DebugRef); ok {
				continue
			}
			if reachesAfter(p, u, defBlock) {
				return fmt.Sprintf("%s used by %s", al.Name(), u.String())
			}
		}
	}
	return ""
}

// reachesAfter: can instruction u execute after p without passing through the entry of stop (the alias's definition block)?
func reachesAfter(p ssa.Instruction, u ssa.Instruction, stop *ssa.BasicBlock) bool {
	pb, ub := p.Block(), u.Block()
	idx := func(b *ssa.BasicBlock, i ssa.Instruction) int {
		for k, x := range b.Instrs {
			if x == i {
				return k
			}
		}
		return -1
	}
	if pb == ub && idx(pb, u) > idx(pb, p) {
		return true
	}
	seen := map[*ssa.BasicBlock]bool{}
	stack := append([]*ssa.BasicBlock{}, pb.Succs...)
	for len(stack) > 0 {
		b := stack[len(stack)-1]
		stack = stack[:len(stack)-1]
		if seen[b] {
			continue
		}
		seen[b] = true
		if b == stop {
			// re-entering the definition block gives a new version of a phi; for a value defined by an ordinary instruction the
			// uses located in the definition block after the definition still see the re-evaluated value
			continue
		}
		if b == ub {
			return true
		}
		stack = append(stack, b.Succs...)
	}
	return false
}

func isRepoPath(p string) bool { return p == repoMod || strings.HasPrefix(p, repoMod+"/") }

var purePkgs = []string{"strconv.", "strings.", "github.com/satori/go.uuid.", "(github.com/satori/go.uuid.UUID).", "encoding/hex.", "encoding/base64.", "(*encoding/base64.Encoding).",
	"unicode.", "unicode/utf8.", "bytes.", "path.", "sort.Search", "github.com/dvsekhvalnov/jose2go/base64url.", "crypto/sha256.", "github.com/ipfs/go-cid.", "(github.com/ipfs/go-cid.Cid).",
	"github.com/multiformats/go-multiaddr.", "regexp.MatchString", "encoding/json.Marshal", "github.com/SaoNetwork/sao-did/parser.", "github.com/SaoNetwork/sao-did/util."}

// pureExternal: library functions that are deterministic functions of their arguments (no chain state, no clock) are
// modelled as uninterpreted functions: same arguments, same results; nothing else is assumed about them.
func (e *Enc) pureExternal(x ssa.Value, cc *callCtx) bool {
	if isNondetCallee(cc.name) {
		// not a function of its arguments (random / clock based): never modelled as one
		return false
	}
	ok := false
	for _, p := range purePkgs {
		if strings.HasPrefix(cc.name, p) {
			ok = true
		}
	}
	if !ok {
		return false
	}
	g := e.g()
	var as, sorts []string
	for i, a := range cc.args {
		srt := g.SortOf(a.Type())
		if _, isPtr := types.Unalias(a.Type()).Underlying().(*types.Pointer); isPtr {
			return false // mutation through pointers is not modelled
		}
		as = append(as, cc.arg(i))
		sorts = append(sorts, srt)
	}
	var res []string
	for i := 0; i < cc.sig.Results().Len(); i++ {
		rt := cc.sig.Results().At(i).Type()
		rs := g.SortOf(rt)
		fn := fmt.Sprintf("uf_%s_%d", mangle(cc.name), i)
		g.DeclFun(fn, sorts, rs)
		var t string
		if len(as) == 0 {
			t = fn
		} else {
			t = fmt.Sprintf("(%s %s)", fn, strings.Join(as, " "))
		}
		t = e.r.def(e.pfx+"pure", rs, t)
		e.typeInv(t, rt, 0)
		res = append(res, t)
	}
	g.usedExt["pure-function:"+cc.name] = true
	e.setResults(x, cc.sig, res)
	return true
}

// abstractClosureCall: sound over-approximation of a call to a loop-carrying closure (see call()). Nothing inside the closure
// is an obligation of the enclosing function (its panics and termination are not checked); recorded in Root.abstracted.
func (e *Enc) abstractClosureCall(x *ssa.Call, fn *ssa.Function, mc *ssa.MakeClosure, cc *callCtx) bool {
	writes := map[int]bool{}
	why := ""
	rootOf := func(v ssa.Value) ssa.Value {
		for {
			switch y := v.(type) {
			case *ssa.FieldAddr:
				v = y.X
			case *ssa.IndexAddr:
				v = y.X
			default:
				return v
			}
		}
	}
	if len(fn.AnonFuncs) > 0 {
		why = "nested closure"
	}
	for _, b := range fn.Blocks {
		for _, ins := range b.Instrs {
			switch y := ins.(type) {
			case *ssa.Store:
				switch r := rootOf(y.Addr).(type) {
				case *ssa.FreeVar:
					for i, fv := range fn.FreeVars {
						if fv == r {
							writes[i] = true
						}
					}
				case *ssa.Alloc:
				default:
					why = "store through " + r.Name()
				}
			case *ssa.MapUpdate, *ssa.Send, *ssa.Go, *ssa.Defer, *ssa.Select:
				why = fmt.Sprintf("%T", y)
			case *ssa.Call:
				c := &y.Call
				if _, ok := c.Value.(*ssa.Builtin); ok {
					continue
				}
				var callee *ssa.Function
				if c.IsInvoke() {
					callee = e.r.v.resolveInvokeQuiet(e, c)
				} else {
					callee = c.StaticCallee()
				}
				if callee != nil && inRepo(callee) {
					ct := e.r.v.specs.Contracts[funcKey(callee)]
					if ct == nil || !modifiesNothing(ct) {
						why = "calls " + callee.Name() + ", which has no contract with 'modifies nothing'"
					} else {
						e.r.v.noteCallee(e.r, ct)
					}
					continue
				}
				n := calleeNameStatic(c)
				pure := isSinkName(n) || effectFreeExtRe.MatchString(n)
				for _, p := range purePkgs {
					if strings.HasPrefix(n, p) {
						pure = true
					}
				}
				if !pure {
					why = "calls " + n
				}
			}
		}
	}
	if why != "" {
		e.r.errorf("needs contract: closure %s has loops and cannot be abstracted (%s)", fn.Name(), why)
		return false
	}
	for i := range fn.FreeVars {
		if !writes[i] || i >= len(mc.Bindings) {
			continue
		}
		l := e.locOf(mc.Bindings[i])
		if l == nil || len(l.Path) != 0 {
			e.r.errorf("needs contract: closure %s writes a captured variable that is not a whole cell", fn.Name())
			return false
		}
		e.store(l, e.havoc(l.T, e.pfx+"cl_"+mangle(fn.FreeVars[i].Name())))
	}
	var res []string
	for i := 0; i < cc.sig.Results().Len(); i++ {
		res = append(res, e.havoc(cc.sig.Results().At(i).Type(), e.pfx+"clres"))
	}
	e.setResults(x, cc.sig, res)
	e.r.abstracted = appendUnique(e.r.abstracted, fn.String())
	return true
}

// external callees with an encoder rule that have no effect on any modelled state (error construction, formatting)
var effectFreeExtRe = regexp.MustCompile(`^(github\.com/cosmos/cosmos-sdk/types/errors\.(Wrap|Wrapf|Register)|cosmossdk\.io/errors\.(Wrap|Wrapf)|fmt\.(Sprintf|Sprint|Errorf)|errors\.New|google\.golang\.org/grpc/status\.(Error|Errorf)|\(error\)\.Error)$`)

func modifiesNothing(ct *Contract) bool {
	if ct.Accessor || ct.ModAll {
		return false
	}
	if len(ct.Modifies) == 0 {
		return false
	}
	for _, m := range ct.Modifies {
		if !(m.E != nil && m.E.Op == "id" && m.E.S == "nothing") {
			return false
		}
	}
	return true
}

func appendUnique(xs []string, s string) []string {
	for _, x := range xs {
		if x == s {
			return xs
		}
	}
	return append(xs, s)
}
