package main

// Translation of spec expressions into SMT terms in a given environment.

import (
	"fmt"
	"go/types"
	"strings"

	"golang.org/x/tools/go/ssa"
)

// SV is a typed spec value.
type SV struct {
	t    string
	sort string
	gt   types.Type // Go type when known
	st   *StoreDecl // typed store reference
}

type SpecEnv struct {
	e        *Enc
	vars     map[string]SV
	cur      map[string]string // current state (nil: use e.st)
	old      map[string]string // old state (nil: function entry)
	oldVars  map[string]SV     // variable bindings inside old() (e.g. pointer params are the same)
	inOld    bool
	errCtx   string
	at       *ssa.BasicBlock   // for resolving local variable names (loop invariants)
	entry    map[string]string // state at loop entry (loop clauses)
	noLocals bool
	override map[string]string // state name -> term, inside within(snapshot, Store, expr)
	iter     map[string]string // state at the head of the innermost enclosing loop in this iteration (call-site assertions)
}

func (env *SpecEnv) fail(format string, a ...interface{}) {
	env.e.r.errorf("spec error (%s): %s", env.errCtx, fmt.Sprintf(format, a...))
}

func (env *SpecEnv) state(name string) string {
	e := env.e
	if t, ok := env.override[name]; ok {
		return t
	}
	if env.inOld {
		if env.old != nil {
			if t, ok := env.old[name]; ok {
				return t
			}
		}
		return e.r.initState(name)
	}
	if env.cur != nil {
		if t, ok := env.cur[name]; ok {
			return t
		}
		return e.r.initState(name)
	}
	return e.getState(name)
}

func (env *SpecEnv) boolExpr(x *SExpr) string {
	sv := env.expr(x)
	if sv.sort != "Bool" && sv.sort != "" {
		env.fail("expected Bool, got %s", sv.sort)
		return "true"
	}
	return sv.t
}

func (env *SpecEnv) quantSort(ty string) (string, types.Type) {
	switch ty {
	case "int", "ref":
		return "Int", nil
	case "bool":
		return "Bool", nil
	case "string":
		return "Str", types.Typ[types.String]
	case "addr":
		return "Addr", nil
	case "bytes":
		return bytesSort(env.e.g()), types.NewSlice(types.Typ[types.Uint8])
	case "float32":
		return sortF32, types.Typ[types.Float32]
	}
	if _, ok := env.e.g().sliceElem[ty]; ok {
		return ty, nil
	}
	if ty == "Slice_ref" {
		// slice of pointers (references are integers)
		return env.e.g().SortOf(types.NewSlice(types.Typ[types.Int])), nil
	}
	if strings.HasPrefix(ty, "KV_") {
		// a snapshot of one store (its raw key/value array), as a value: argument of ghost functions that sum over records
		if sd := env.e.r.v.specs.Stores[strings.TrimPrefix(ty, "KV_")]; sd != nil {
			bs := bytesSort(env.e.g())
			return fmt.Sprintf("(Array %s %s)", bs, bs), nil
		}
	}
	if strings.HasPrefix(ty, "Heap_") {
		// the heap of cells of a named struct type, as a value (argument of ghost functions that read through pointers)
		if es, et := env.namedSort(strings.TrimPrefix(ty, "Heap_")); et != nil {
			return fmt.Sprintf("(Array Int %s)", es), nil
		}
	}
	if ty == "Slice_Str" {
		return env.e.g().SortOf(types.NewSlice(types.Typ[types.String])), types.NewSlice(types.Typ[types.String])
	}
	if strings.HasPrefix(ty, "Slice_") {
		// slice sort named before any code mentioned it: declare it from its element type
		if _, et := env.namedSort(strings.TrimPrefix(ty, "Slice_")); et != nil {
			st := types.NewSlice(et)
			return env.e.g().SortOf(st), st
		}
	}
	return env.namedSort(ty)
}

func (env *SpecEnv) namedSort(ty string) (string, types.Type) {
	g := env.e.g()
	if _, ok := g.dtDecl[ty]; ok {
		return ty, g.structNamed[ty]
	}
	if t := env.e.r.v.lookupTypeShort(ty); t != nil {
		return g.SortOf(t), t
	}
	env.fail("unknown type %q", ty)
	return "Int", nil
}

func (env *SpecEnv) expr(x *SExpr) SV {
	g := env.e.g()
	switch x.Op {
	case "num":
		return SV{t: x.S, sort: "Int"}
	case "fnum":
		return SV{t: fmt.Sprintf("((_ to_fp 8 24) RNE %s)", x.S), sort: sortF32}
	case "str":
		return SV{t: g.StrLit(x.S), sort: "Str", gt: types.Typ[types.String]}
	case "id":
		return env.ident(x.S)
	case "iter":
		// state at the start of the current iteration of the innermost enclosing loop (call-site assertions inside loops)
		if env.iter == nil {
			env.fail("iter(): only available in call-site assertions inside a loop")
			return env.expr(x.Args[0])
		}
		saveCur, saveOld, saveIn := env.cur, env.old, env.inOld
		env.cur, env.inOld = env.iter, false
		r := env.expr(x.Args[0])
		env.cur, env.old, env.inOld = saveCur, saveOld, saveIn
		return r
	case "entry":
		// state when the enclosing loop was entered (loop clauses only)
		if env.entry == nil {
			env.fail("entry(): only available in loop clauses")
			return env.expr(x.Args[0])
		}
		saveCur, saveOld, saveIn := env.cur, env.old, env.inOld
		env.cur, env.inOld = env.entry, false
		r := env.expr(x.Args[0])
		env.cur, env.old, env.inOld = saveCur, saveOld, saveIn
		return r
	case "old":
		if env.inOld {
			return env.expr(x.Args[0])
		}
		env.inOld = true
		r := env.expr(x.Args[0])
		env.inOld = false
		return r
	case "now":
		// now(e) inside old(...): e is evaluated in the current state (e.g. a field of a result allocated by the function)
		was := env.inOld
		env.inOld = false
		r := env.expr(x.Args[0])
		env.inOld = was
		return r
	case "un":
		a := env.expr(x.Args[0])
		switch x.S {
		case "!":
			return SV{t: "(not " + a.t + ")", sort: "Bool"}
		case "-":
			return SV{t: "(- " + a.t + ")", sort: "Int"}
		case "*":
			return env.deref(a)
		}
	case "cond":
		c := env.boolExpr(x.Args[0])
		a := env.expr(x.Args[1])
		b := env.expr(x.Args[2])
		return SV{t: fmt.Sprintf("(ite %s %s %s)", c, a.t, b.t), sort: a.sort, gt: a.gt}
	case "bin":
		return env.bin(x)
	case "field":
		a := env.expr(x.Args[0])
		return env.field(a, x.S)
	case "index":
		a := env.expr(x.Args[0])
		if a.st != nil {
			k := env.expr(x.Args[1])
			return env.storeGet(a.st, []SV{k})
		}
		i := env.expr(x.Args[1])
		if _, ok := g.sliceElem[a.sort]; ok {
			var et types.Type
			if a.gt != nil {
				switch u := types.Unalias(a.gt).Underlying().(type) {
				case *types.Slice:
					et = u.Elem()
				case *types.Array:
					et = u.Elem()
				}
			}
			if et == nil {
				et = g.sliceElemT[a.sort]
			}
			return SV{t: fmt.Sprintf("(select (%s_arr %s) %s)", a.sort, a.t, i.t), sort: g.sliceElem[a.sort], gt: et}
		}
		if kv, ok := g.mapKV[a.sort]; ok {
			// Go semantics: the zero value for a key that is not in the map (integer- and bool-valued maps; other value sorts
			// keep the raw select: their zero term needs the Go type)
			if kv[1] == "Int" {
				return SV{t: fmt.Sprintf("(ite (select (%s_dom %s) %s) (select (%s_val %s) %s) 0)", a.sort, a.t, i.t, a.sort, a.t, i.t), sort: kv[1]}
			}
			if kv[1] == "Bool" {
				return SV{t: fmt.Sprintf("(and (select (%s_dom %s) %s) (select (%s_val %s) %s))", a.sort, a.t, i.t, a.sort, a.t, i.t), sort: kv[1]}
			}
			return SV{t: fmt.Sprintf("(select (%s_val %s) %s)", a.sort, a.t, i.t), sort: kv[1]}
		}
		if strings.HasPrefix(a.sort, "(Array ") {
			return SV{t: fmt.Sprintf("(select %s %s)", a.t, i.t), sort: arrayRange(a.sort)}
		}
		env.fail("cannot index %s", a.sort)
		return SV{t: "0", sort: "Int"}
	case "slice":
		a := env.expr(x.Args[0])
		if _, ok := g.sliceElem[a.sort]; !ok || x.Args[1] != nil {
			env.fail("only prefix slices s[:n] are supported in specs")
			return a
		}
		hi := env.expr(x.Args[2])
		return SV{t: fmt.Sprintf("(mk_%s (%s_arr %s) %s false)", a.sort, a.sort, a.t, hi.t), sort: a.sort, gt: a.gt}
	case "quant":
		saved := map[string]*SV{}
		var binds []string
		for _, v := range x.Vars {
			s, gt := env.quantSort(v[1])
			if old, ok := env.vars[v[0]]; ok {
				o := old
				saved[v[0]] = &o
			} else {
				saved[v[0]] = nil
			}
			env.vars[v[0]] = SV{t: v[0] + "!q", sort: s, gt: gt}
			binds = append(binds, fmt.Sprintf("(%s!q %s)", v[0], s))
		}
		body := env.boolExpr(x.Args[0])
		for k, o := range saved {
			if o == nil {
				delete(env.vars, k)
			} else {
				env.vars[k] = *o
			}
		}
		return SV{t: fmt.Sprintf("(%s (%s) %s)", x.S, strings.Join(binds, " "), body), sort: "Bool"}
	case "call":
		return env.call(x)
	}
	env.fail("cannot translate %s", x.Op)
	return SV{t: "true", sort: "Bool"}
}

func arrayRange(s string) string {
	// "(Array K V)" -> V ; K is an atom or parenthesised
	in := strings.TrimSuffix(strings.TrimPrefix(s, "(Array "), ")")
	depth := 0
	for i, c := range in {
		switch c {
		case '(':
			depth++
		case ')':
			depth--
		case ' ':
			if depth == 0 {
				return in[i+1:]
			}
		}
	}
	return in
}

func (env *SpecEnv) ident(name string) SV {
	e := env.e
	switch name {
	case "true", "false":
		return SV{t: name, sort: "Bool"}
	case "nil":
		return SV{t: "0", sort: "Int"}
	case "H":
		return SV{t: "H", sort: "Int"}
	case "ChainID":
		e.g().DeclFun("ChainID", nil, sortStr)
		return SV{t: "ChainID", sort: "Str"}
	case "BlockTime": // unix time of the block header
		e.g().DeclFun("BlockTime", nil, "Int")
		return SV{t: "BlockTime", sort: "Int"}
	case "BondDenom": // the staking module's bond denomination (a parameter the repo never writes)
		e.g().DeclFun("BondDenom", nil, sortStr)
		return SV{t: "BondDenom", sort: "Str"}
	case "MaxInt64":
		return SV{t: "9223372036854775807", sort: "Int"}
	case "MaxUint64":
		return SV{t: "18446744073709551615", sort: "Int"}
	case "nextRef":
		e.ensureState("nextRef", "Int")
		return SV{t: env.state("nextRef"), sort: "Int"}
	}
	if env.inOld && env.oldVars != nil {
		if v, ok := env.oldVars[name]; ok {
			return v
		}
	}
	if v, ok := env.vars[name]; ok {
		return v
	}
	if sd, ok := e.r.v.specs.Stores[name]; ok {
		return SV{st: sd, sort: "store"}
	}
	if !env.noLocals && env.at != nil {
		if v, ok := e.resolveLocal(name, env.at, env); ok {
			return v
		}
	}
	for _, p := range e.fn.Params {
		if p.Name() == name {
			return SV{t: e.val(p), sort: e.g().SortOf(p.Type()), gt: p.Type()}
		}
	}
	// package-level constant of the function's package (or of referenced packages via short name)
	if c := e.r.v.lookupConst(e.fn, name); c != nil {
		return *c
	}
	env.fail("unknown identifier %q", name)
	return SV{t: "0", sort: "Int"}
}

// resolveLocal finds the SSA value that represents source variable `name` at block `at` (used for loop invariants).
func (e *Enc) resolveLocal(name string, at *ssa.BasicBlock, env *SpecEnv) (SV, bool) {
	if strings.HasPrefix(name, "res_") {
		callee := strings.TrimPrefix(name, "res_")
		var best ssa.Value
		for _, b := range e.fn.Blocks {
			for _, ins := range b.Instrs {
				c, ok := ins.(*ssa.Call)
				if !ok {
					continue
				}
				cn := c.Call.Method
				nm := ""
				if c.Call.IsInvoke() && cn != nil {
					nm = cn.Name()
				} else if sc := c.Call.StaticCallee(); sc != nil {
					nm = sc.Name()
				}
				if nm == callee && (b == at || b.Dominates(at)) {
					if _, has := e.vals[c]; has {
						best = c
					}
				}
			}
		}
		if best != nil {
			return SV{t: e.val(best), sort: e.g().SortOf(best.Type()), gt: best.Type()}, true
		}
	}
	// 0. rangeindex_Lk: the index of the enclosing range loop Lk (inner loop clauses that speak about the outer position)
	if strings.HasPrefix(name, "rangeindex_") {
		for _, li := range e.loops {
			if li.name != strings.TrimPrefix(name, "rangeindex_") {
				continue
			}
			for _, ins := range li.head.Instrs {
				phi, ok := ins.(*ssa.Phi)
				if !ok {
					break
				}
				if phi.Comment == "rangeindex" {
					return SV{t: e.vals[phi], sort: "Int", gt: phi.Type()}, true
				}
			}
		}
	}
	// 1. phi at the loop head with that comment
	for _, ins := range at.Instrs {
		phi, ok := ins.(*ssa.Phi)
		if !ok {
			break
		}
		if phi.Comment == name {
			return SV{t: e.vals[phi], sort: e.g().SortOf(phi.Type()), gt: phi.Type()}, true
		}
	}
	// 2. local alloc (address-taken variable) with that name
	var best *ssa.Alloc
	for _, b := range e.fn.Blocks {
		for _, ins := range b.Instrs {
			if a, ok := ins.(*ssa.Alloc); ok && a.Comment == name {
				if a.Block() == at || a.Block().Dominates(at) {
					best = a
				}
			}
		}
	}
	if best != nil {
		l := e.locs[best]
		if l != nil {
			el := best.Type().(*types.Pointer).Elem()
			var t string
			switch l.Kind {
			case "local":
				t = env.state(l.Name)
			case "heap":
				t = fmt.Sprintf("(select %s %s)", env.state(l.Name), l.Base)
			}
			return SV{t: t, sort: e.g().SortOf(el), gt: el}, true
		}
	}
	// 3. value with a DebugRef of that name whose definition dominates `at`
	var bestV ssa.Value
	for _, v := range e.dbg[name] {
		var vb *ssa.BasicBlock
		if ins, ok := v.(ssa.Instruction); ok {
			vb = ins.Block()
		} else if _, ok := v.(*ssa.Parameter); ok {
			vb = e.fn.Blocks[0]
		} else {
			continue
		}
		if _, has := e.vals[v]; !has {
			if _, isP := v.(*ssa.Parameter); !isP {
				continue
			}
		}
		if vb == at || vb.Dominates(at) {
			if bestV == nil {
				bestV = v
			} else {
				var bb *ssa.BasicBlock
				if ins, ok := bestV.(ssa.Instruction); ok {
					bb = ins.Block()
				} else {
					bb = e.fn.Blocks[0]
				}
				if bb.Dominates(vb) {
					bestV = v
				}
			}
		}
	}
	if bestV != nil {
		if l := e.locs[bestV]; l != nil && l.Kind == "local" && strings.HasPrefix(l.Name, "map:") {
			// Go maps are reference values held in a state variable: the spec sees the current content
			return SV{t: env.state(l.Name), sort: e.g().SortOf(bestV.Type()), gt: bestV.Type()}, true
		}
		return SV{t: e.val(bestV), sort: e.g().SortOf(bestV.Type()), gt: bestV.Type()}, true
	}
	return SV{}, false
}

func (env *SpecEnv) deref(a SV) SV {
	if a.gt == nil {
		env.fail("cannot dereference untyped value")
		return a
	}
	pt, ok := types.Unalias(a.gt).Underlying().(*types.Pointer)
	if !ok {
		env.fail("cannot dereference %s", a.gt)
		return a
	}
	h := env.e.heapFor(pt.Elem())
	return SV{t: fmt.Sprintf("(select %s %s)", env.state(h), a.t), sort: env.e.g().SortOf(pt.Elem()), gt: pt.Elem()}
}

func (env *SpecEnv) field(a SV, f string) SV {
	g := env.e.g()
	if a.gt != nil {
		if _, ok := types.Unalias(a.gt).Underlying().(*types.Pointer); ok {
			a = env.deref(a)
		}
	}
	st := g.structOf[a.sort]
	if st == nil {
		env.fail("field %s of non-struct sort %s", f, a.sort)
		return SV{t: "0", sort: "Int"}
	}
	for i := 0; i < st.NumFields(); i++ {
		if st.Field(i).Name() == f {
			ft := st.Field(i).Type()
			return SV{t: g.FieldSel(a.sort, st, i, a.t), sort: g.SortOf(ft), gt: ft}
		}
	}
	// promoted field through embedded struct
	for i := 0; i < st.NumFields(); i++ {
		if st.Field(i).Embedded() {
			inner := SV{t: g.FieldSel(a.sort, st, i, a.t), sort: g.SortOf(st.Field(i).Type()), gt: st.Field(i).Type()}
			if ist := g.structOf[inner.sort]; ist != nil {
				for j := 0; j < ist.NumFields(); j++ {
					if ist.Field(j).Name() == f {
						return env.field(inner, f)
					}
				}
			}
		}
	}
	env.fail("no field %s in %s", f, a.sort)
	return SV{t: "0", sort: "Int"}
}

func (env *SpecEnv) bin(x *SExpr) SV {
	op := x.S
	a := env.expr(x.Args[0])
	b := env.expr(x.Args[1])
	isF := a.sort == sortF32 || a.sort == sortF64
	// literal adaptation for float comparisons
	if isF && b.sort == "Int" {
		eb, sb := 8, 24
		if a.sort == sortF64 {
			eb, sb = 11, 53
		}
		b = SV{t: fmt.Sprintf("((_ to_fp %d %d) RNE %s.0)", eb, sb, b.t), sort: a.sort}
	}
	switch op {
	case "&&":
		return SV{t: fmt.Sprintf("(and %s %s)", a.t, b.t), sort: "Bool"}
	case "||":
		return SV{t: fmt.Sprintf("(or %s %s)", a.t, b.t), sort: "Bool"}
	case "==>":
		return SV{t: fmt.Sprintf("(=> %s %s)", a.t, b.t), sort: "Bool"}
	case "<==>":
		return SV{t: fmt.Sprintf("(= %s %s)", a.t, b.t), sort: "Bool"}
	case "==", "!=":
		var t string
		if isF {
			t = fmt.Sprintf("(fp.eq %s %s)", a.t, b.t)
		} else {
			if a.sort != b.sort && a.sort != "" && b.sort != "" {
				// nil against slice
				if _, ok := env.e.g().sliceElem[a.sort]; ok && b.t == "0" {
					t = fmt.Sprintf("(%s_nil %s)", a.sort, a.t)
				} else {
					env.fail("comparing %s with %s (%s %s %s)", a.sort, b.sort, a.t, op, b.t)
					t = "true"
				}
			} else {
				t = fmt.Sprintf("(= %s %s)", a.t, b.t)
			}
		}
		if op == "!=" {
			t = "(not " + t + ")"
		}
		return SV{t: t, sort: "Bool"}
	case "<", "<=", ">", ">=":
		if isF {
			m := map[string]string{"<": "fp.lt", "<=": "fp.leq", ">": "fp.gt", ">=": "fp.geq"}
			return SV{t: fmt.Sprintf("(%s %s %s)", m[op], a.t, b.t), sort: "Bool"}
		}
		if a.sort == "Str" {
			switch op {
			case "<":
				return SV{t: fmt.Sprintf("(strlt %s %s)", a.t, b.t), sort: "Bool"}
			case ">":
				return SV{t: fmt.Sprintf("(strlt %s %s)", b.t, a.t), sort: "Bool"}
			}
		}
		return SV{t: fmt.Sprintf("(%s %s %s)", op, a.t, b.t), sort: "Bool"}
	case "+":
		if a.sort == "Str" {
			return SV{t: fmt.Sprintf("(strcat %s %s)", a.t, b.t), sort: "Str"}
		}
		return SV{t: fmt.Sprintf("(+ %s %s)", a.t, b.t), sort: "Int"}
	case "-":
		return SV{t: fmt.Sprintf("(- %s %s)", a.t, b.t), sort: "Int"}
	case "*":
		return SV{t: mulTerm(a.t, b.t), sort: "Int"}
	case "/":
		return SV{t: divTerm("tdiv", a.t, b.t), sort: "Int"}
	case "%":
		return SV{t: divTerm("tmod", a.t, b.t), sort: "Int"}
	case "&":
		return SV{t: fmt.Sprintf("(band %s %s)", a.t, b.t), sort: "Int"}
	case "|":
		return SV{t: fmt.Sprintf("(bor %s %s)", a.t, b.t), sort: "Int"}
	case "^":
		return SV{t: fmt.Sprintf("(bxor %s %s)", a.t, b.t), sort: "Int"}
	}
	env.fail("unknown operator %s", op)
	return SV{t: "true", sort: "Bool"}
}

func (env *SpecEnv) storeKey(sd *StoreDecl, ks []SV) string {
	g := env.e.g()
	bs := bytesSort(g)
	var as, sorts []string
	for _, k := range ks {
		as = append(as, k.t)
		sorts = append(sorts, k.sort)
	}
	switch {
	case sd.KeyFun == "be64":
		declBE(g, bs)
		return fmt.Sprintf("(be64enc %s)", as[0])
	case sd.KeyFun == "byte0":
		return fmt.Sprintf("(mk_%s (store ((as const (Array Int Int)) 0) 0 0) 1 false)", bs)
	case sd.KeyFun == "strbytes":
		declStr2Bytes(g, bs)
		return fmt.Sprintf("(str2bytes %s)", as[0])
	case strings.HasPrefix(sd.KeyFun, "str:"):
		declStr2Bytes(g, bs)
		return fmt.Sprintf("(str2bytes %s)", g.StrLit(strings.TrimPrefix(sd.KeyFun, "str:")))
	case sd.KeyFun == "":
		env.fail("store %s has no key function", sd.Name)
		return "0"
	}
	fn := "key_" + mangle(sd.KeyFun)
	env.e.r.v.declareKeyFun(g, fn, sorts)
	if len(as) == 0 {
		return fn
	}
	return fmt.Sprintf("(%s %s)", fn, strings.Join(as, " "))
}

func (env *SpecEnv) storeArr(sd *StoreDecl) string {
	if t, ok := env.override[sd.KV]; ok {
		// inside within(snapshot, Store, ...): the snapshot value, not the function's state (an axiom over snapshots must not
		// make every function look as if it read the store)
		return t
	}
	g := env.e.g()
	bs := g.SortOf(types.NewSlice(types.Typ[types.Uint8]))
	env.e.ensureState(sd.KV, fmt.Sprintf("(Array %s %s)", bs, bs))
	return env.state(sd.KV)
}

func (env *SpecEnv) storeGet(sd *StoreDecl, ks []SV) SV {
	g := env.e.g()
	raw := fmt.Sprintf("(select %s %s)", env.storeArr(sd), env.storeKey(sd, ks))
	if sd.Raw {
		bs := g.SortOf(types.NewSlice(types.Typ[types.Uint8]))
		return SV{t: raw, sort: bs, gt: types.NewSlice(types.Typ[types.Uint8])}
	}
	vt := env.e.r.v.lookupType(sd.ValTy)
	if vt == nil {
		env.fail("store %s: unknown value type %s", sd.Name, sd.ValTy)
		return SV{t: "0", sort: "Int"}
	}
	vs := g.SortOf(vt)
	un := unmarshalFun(g, vs)
	if sd.KeyField != "" && len(ks) == 1 && !strings.Contains(raw, "!q") && !strings.Contains(raw, "!p") {
		// ground read: instance of the store's key-field invariant (see Enc.keyInv)
		if inv := env.e.keyInv(sd.KV, env.storeKey(sd, ks), raw); inv != "" {
			env.e.r.assume(inv)
		}
	}
	return SV{t: fmt.Sprintf("(%s %s)", un, raw), sort: vs, gt: vt}
}

func unmarshalFun(g *Gen, vs string) string {
	bs := g.SortOf(types.NewSlice(types.Typ[types.Uint8]))
	un, mar := "unm_"+mangle(vs), "mar_"+mangle(vs)
	g.DeclFun(un, []string{bs}, vs)
	g.DeclFun(mar, []string{vs}, bs)
	g.Axiom("proto.roundtrip."+vs, fmt.Sprintf("(forall ((v %s)) (! (and (= (%s (%s v)) v) (not (%s_nil (%s v)))) :pattern ((%s v))))", vs, un, mar, bs, mar, mar))
	// a decoded value is well typed: machine-integer fields are within their ranges, slice lengths are non-negative
	if t := g.structNamed[vs]; t != nil {
		if fs := typeInvFormulas(g, fmt.Sprintf("(%s b!u)", un), t, 0); len(fs) > 0 {
			g.Axiom("proto.typed."+vs, fmt.Sprintf("(forall ((b!u %s)) (! %s :pattern ((%s b!u))))", bs, andTerms(fs), un))
		}
	}
	return un
}

// typeInvFormulas: the type invariant of a term of Go type t as SMT formulas (same content as Enc.typeInv).
func typeInvFormulas(g *Gen, term string, t types.Type, depth int) []string {
	t = types.Unalias(t)
	if b := intBasic(t); b != nil {
		if _, ok := specialSort(typeFullName(t)); ok {
			return nil
		}
		lo, hi := intRange(b)
		if lo == "" {
			return nil
		}
		return []string{fmt.Sprintf("(<= %s %s)", lo, term), fmt.Sprintf("(<= %s %s)", term, hi)}
	}
	if depth > 3 {
		return nil
	}
	if n, ok := t.(*types.Named); ok {
		if _, sp := specialSort(typeFullName(n)); sp {
			return nil
		}
	}
	var out []string
	if st, ok := t.Underlying().(*types.Struct); ok {
		s := g.SortOf(t)
		if g.structOf[s] == nil {
			return nil
		}
		for i := 0; i < st.NumFields(); i++ {
			out = append(out, typeInvFormulas(g, g.FieldSel(s, st, i, term), st.Field(i).Type(), depth+1)...)
		}
		return out
	}
	if sl, ok := t.Underlying().(*types.Slice); ok {
		s := g.SortOf(t)
		out = append(out, fmt.Sprintf("(>= (%s_len %s) 0)", s, term), fmt.Sprintf("(<= (%s_len %s) 4611686018427387904)", s, term),
			fmt.Sprintf("(=> (%s_nil %s) (= (%s_len %s) 0))", s, term, s, term))
		if b := intBasic(sl.Elem()); b != nil {
			lo, hi := intRange(b)
			out = append(out, fmt.Sprintf("(forall ((i!r Int)) (! (and (<= %s (select (%s_arr %s) i!r)) (<= (select (%s_arr %s) i!r) %s)) :pattern ((select (%s_arr %s) i!r))))", lo, s, term, s, term, hi, s, term))
		} else if _, isStruct := types.Unalias(sl.Elem()).Underlying().(*types.Struct); isStruct && depth <= 1 {
			// elements of a slice of structs (one level): their integer fields are in range
			el := fmt.Sprintf("(select (%s_arr %s) i!s)", s, term)
			if fs := typeInvFormulas(g, el, sl.Elem(), depth+2); len(fs) > 0 {
				out = append(out, fmt.Sprintf("(forall ((i!s Int)) (! %s :pattern (%s)))", andTerms(fs), el))
			}
		}
	}
	return out
}

func marshalFun(g *Gen, vs string) string {
	unmarshalFun(g, vs)
	return "mar_" + mangle(vs)
}

func (env *SpecEnv) call(x *SExpr) SV {
	g := env.e.g()
	var args []SV
	argv := func(i int) SV {
		for len(args) <= i {
			args = append(args, env.expr(x.Args[len(args)]))
		}
		return args[i]
	}
	need := func(n int) bool {
		if len(x.Args) != n {
			env.fail("%s expects %d arguments", x.S, n)
			return false
		}
		return true
	}
	switch x.S {
	case "len":
		if !need(1) {
			break
		}
		a := argv(0)
		if a.sort == "Str" {
			return SV{t: fmt.Sprintf("(strlen %s)", a.t), sort: "Int"}
		}
		if _, ok := g.sliceElem[a.sort]; ok {
			return SV{t: fmt.Sprintf("(%s_len %s)", a.sort, a.t), sort: "Int"}
		}
		env.fail("len of %s", a.sort)
	case "has":
		if len(x.Args) < 1 {
			break
		}
		a := argv(0)
		if a.st == nil {
			env.fail("has: first argument must be a store")
			break
		}
		var ks []SV
		for i := 1; i < len(x.Args); i++ {
			ks = append(ks, argv(i))
		}
		bs := g.SortOf(types.NewSlice(types.Typ[types.Uint8]))
		return SV{t: fmt.Sprintf("(not (%s_nil (select %s %s)))", bs, env.storeArr(a.st), env.storeKey(a.st, ks)), sort: "Bool"}
	case "get":
		a := argv(0)
		if a.st == nil {
			env.fail("get: first argument must be a store")
			break
		}
		var ks []SV
		for i := 1; i < len(x.Args); i++ {
			ks = append(ks, argv(i))
		}
		return env.storeGet(a.st, ks)
	case "bal":
		if !need(2) {
			break
		}
		env.e.ensureState("bank", "(Array Addr (Array Str Int))")
		return SV{t: fmt.Sprintf("(select (select %s %s) %s)", env.state("bank"), argv(0).t, argv(1).t), sort: "Int"}
	case "param": // param(KeyName): value of a module parameter (x/params subspace), identified by its key variable
		if len(x.Args) == 1 && x.Args[0].Op == "id" {
			full := env.e.r.v.lookupGlobalVar(env.e.fn, x.Args[0].S)
			if full == "" {
				env.fail("param: unknown key variable %s", x.Args[0].S)
				break
			}
			name := "param:" + full
			srt, ok := env.e.r.stSort[name]
			var gt types.Type
			if decl, has := env.e.r.v.specs.Params[full]; has {
				ds, dgt := env.quantSort(decl)
				if ok && ds != srt {
					env.fail("param %s declared as %s but used as %s", full, ds, srt)
				}
				srt, gt, ok = ds, dgt, true
				env.e.ensureState(name, srt)
			}
			if !ok {
				env.fail("param %s has no //@ param declaration and is not read by this function", full)
				break
			}
			return SV{t: env.state(name), sort: srt, gt: gt}
		}
	case "oldbal": // balance in the old state of an (address, denom) evaluated in the current state
		if !need(2) {
			break
		}
		env.e.ensureState("bank", "(Array Addr (Array Str Int))")
		a0, a1 := argv(0).t, argv(1).t
		was := env.inOld
		env.inOld = true
		b := env.state("bank")
		env.inOld = was
		return SV{t: fmt.Sprintf("(select (select %s %s) %s)", b, a0, a1), sort: "Int"}
	case "str":
		if !need(1) {
			break
		}
		return SV{t: fmt.Sprintf("(addrStr %s)", argv(0).t), sort: "Str"}
	case "addr":
		if !need(1) {
			break
		}
		return SV{t: fmt.Sprintf("(addrOf %s)", argv(0).t), sort: "Addr"}
	case "validAddr":
		return SV{t: fmt.Sprintf("(validAddr %s)", argv(0).t), sort: "Bool"}
	case "moduleAddr":
		g.DeclFun("moduleAddr", []string{"Str"}, "Addr")
		return SV{t: fmt.Sprintf("(moduleAddr %s)", argv(0).t), sort: "Addr"}
	case "max":
		return SV{t: fmt.Sprintf("(imax %s %s)", argv(0).t, argv(1).t), sort: "Int"}
	case "min":
		return SV{t: fmt.Sprintf("(imin %s %s)", argv(0).t, argv(1).t), sort: "Int"}
	case "sprintf": // sprintf(fmt, a, b, ...) over string arguments: the same uninterpreted function the code's fmt.Sprintf maps to
		n := len(x.Args) - 1
		if n < 1 {
			break
		}
		fn := fmt.Sprintf("sprintf%d", n)
		sorts := []string{sortStr}
		as := []string{argv(0).t}
		for i := 1; i <= n; i++ {
			sorts = append(sorts, sortAny)
			a := argv(i)
			switch a.sort {
			case sortStr:
				as = append(as, fmt.Sprintf("(any_str %s)", a.t))
			case "Int":
				as = append(as, fmt.Sprintf("(any_int %s)", a.t))
			default:
				env.fail("sprintf: unsupported argument sort %s", a.sort)
			}
		}
		g.DeclFun(fn, sorts, sortStr)
		return SV{t: fmt.Sprintf("(%s %s)", fn, strings.Join(as, " ")), sort: sortStr, gt: types.Typ[types.String]}
	case "itpos", "itlen", "itkey", "itval", "ithas":
		// ghost view of the (single) KV iterator of the function: position, length, i-th key, i-th raw value
		var ii *iterInfo
		for _, x := range env.e.iters {
			if ii != nil && ii != x {
				env.fail("%s: more than one iterator in %s", x.id, env.e.fn.Name())
			}
			ii = x
		}
		if ii == nil {
			env.fail("%s: no iterator in scope", x.S)
			break
		}
		bs := bytesSort(g)
		switch x.S {
		case "itpos":
			return SV{t: env.state(ii.pos), sort: "Int"}
		case "itlen":
			return SV{t: ii.n, sort: "Int"}
		case "itkey":
			return SV{t: fmt.Sprintf("(select %s %s)", ii.keys, argv(0).t), sort: bs}
		case "itval":
			return SV{t: fmt.Sprintf("(select %s (select %s %s))", ii.snap, ii.keys, argv(0).t), sort: bs}
		case "ithas":
			return SV{t: fmt.Sprintf("(not (%s_nil (select %s %s)))", bs, ii.snap, argv(0).t), sort: "Bool"}
		}
	case "indom": // indom(m, k): key k is present in Go map m
		a := argv(0)
		if _, ok := g.mapKV[a.sort]; !ok {
			env.fail("indom: not a map")
			break
		}
		return SV{t: fmt.Sprintf("(select (%s_dom %s) %s)", a.sort, a.t, argv(1).t), sort: "Bool"}
	case "visited": // visited(k): key k has been produced by the (single) map range of this function
		var name string
		for _, ri := range env.e.ranges {
			if name != "" && name != ri.visited {
				env.fail("visited: more than one map range in %s", env.e.fn.Name())
			}
			name = ri.visited
		}
		if name == "" {
			// the range instruction may not have been encoded yet (clause evaluated before the loop): look for the state var
			for n := range env.e.r.stSort {
				if strings.HasPrefix(n, "visited:") {
					name = n
				}
			}
		}
		if name == "" {
			env.fail("visited: no map range in scope")
			break
		}
		return SV{t: fmt.Sprintf("(select %s %s)", env.state(name), argv(0).t), sort: "Bool"}
	case "with": // with(structvalue, FieldName, newvalue): functional field update
		if len(x.Args) == 3 && x.Args[1].Op == "id" {
			a := argv(0)
			st := g.structOf[a.sort]
			if st != nil {
				for i := 0; i < st.NumFields(); i++ {
					if st.Field(i).Name() == x.Args[1].S {
						nv := env.expr(x.Args[2])
						return SV{t: g.FieldUpd(a.sort, st, i, a.t, nv.t), sort: a.sort, gt: a.gt}
					}
				}
			}
		}
		env.fail("with(struct, Field, value): bad arguments")
	case "marshal": // marshal(v): the protobuf encoding the codec produces for v
		a := argv(0)
		return SV{t: fmt.Sprintf("(%s %s)", marshalFun(g, a.sort), a.t), sort: bytesSort(g)}
	case "rawsel": // rawsel(Store, keybytes): raw bytes stored under raw key bytes
		a := argv(0)
		if a.st == nil {
			break
		}
		return SV{t: fmt.Sprintf("(select %s %s)", env.storeArr(a.st), argv(1).t), sort: bytesSort(g), gt: types.NewSlice(types.Typ[types.Uint8])}
	case "keyinv": // keyinv(Store, keybytes): the argument the store's key constructor was applied to (inverse of an injective key function)
		a := argv(0)
		if a.st == nil || a.st.KeyFun == "" {
			env.fail("keyinv: first argument must be a keyed store")
			break
		}
		fn := "key_" + mangle(a.st.KeyFun)
		env.e.r.v.declareKeyFun(g, fn, []string{sortStr})
		return SV{t: fmt.Sprintf("(%s_inv0 %s)", fn, argv(1).t), sort: sortStr, gt: types.Typ[types.String]}
	case "klt":
		g.DeclFun("klt", []string{bytesSort(g), bytesSort(g)}, "Bool")
		return SV{t: fmt.Sprintf("(klt %s %s)", argv(0).t, argv(1).t), sort: "Bool"}
	case "keyof": // keyof(Store, k...): the raw key bytes of a typed store entry
		a := argv(0)
		if a.st == nil {
			env.fail("keyof: first argument must be a store")
			break
		}
		var ks []SV
		for i := 1; i < len(x.Args); i++ {
			ks = append(ks, argv(i))
		}
		return SV{t: env.storeKey(a.st, ks), sort: bytesSort(g)}
	case "rawhas": // rawhas(Store, keybytes)
		a := argv(0)
		if a.st == nil {
			break
		}
		return SV{t: fmt.Sprintf("(not (%s_nil (select %s %s)))", bytesSort(g), env.storeArr(a.st), argv(1).t), sort: "Bool"}
	case "rawget": // rawget(Store, keybytes): typed value stored under raw key bytes
		a := argv(0)
		if a.st == nil {
			break
		}
		vt := env.e.r.v.lookupType(a.st.ValTy)
		vs := g.SortOf(vt)
		return SV{t: fmt.Sprintf("(%s (select %s %s))", unmarshalFun(g, vs), env.storeArr(a.st), argv(1).t), sort: vs, gt: vt}
	case "u64": // machine wrap of a mathematical value to uint64 (what the code's + and - on uint64 compute)
		return SV{t: fmt.Sprintf("(wrap_u64 %s)", argv(0).t), sort: "Int"}
	case "i64":
		return SV{t: fmt.Sprintf("(wrap_i64 %s)", argv(0).t), sort: "Int"}
	case "same": // structural identity (for float fields: bit-identical, unlike Go's ==)
		return SV{t: fmt.Sprintf("(= %s %s)", argv(0).t, argv(1).t), sort: "Bool"}
	case "strsplit": // strsplit(s, sep): the same uninterpreted function the code's strings.Split maps to
		st := types.NewSlice(types.Typ[types.String])
		ss := g.SortOf(st)
		g.DeclFun("strsplit", []string{sortStr, sortStr}, ss)
		return SV{t: fmt.Sprintf("(strsplit %s %s)", argv(0).t, argv(1).t), sort: ss, gt: st}
	case "isnil":
		a := argv(0)
		if _, ok := g.sliceElem[a.sort]; ok {
			return SV{t: fmt.Sprintf("(%s_nil %s)", a.sort, a.t), sort: "Bool"}
		}
		return SV{t: fmt.Sprintf("(= %s 0)", a.t), sort: "Bool"}
	case "contains": // contains(slice, x): exists index
		a, v := argv(0), argv(1)
		if a.sort == "Str" {
			return SV{t: fmt.Sprintf("(strcontains %s %s)", a.t, v.t), sort: "Bool"}
		}
		if _, ok := g.sliceElem[a.sort]; !ok {
			env.fail("contains: not a slice (%s)", a.sort)
			break
		}
		return SV{t: fmt.Sprintf("(%s %s %s)", g.HasElem(a.sort), a.t, v.t), sort: "Bool"}
	case "zero":
		// zero(TypeName)
		if len(x.Args) == 1 && x.Args[0].Op == "id" {
			s, gt := env.namedSort(x.Args[0].S)
			if gt != nil {
				return SV{t: g.Zero(gt), sort: s, gt: gt}
			}
		}
	case "div": // Euclidean/floor division for non-negative operands
		return SV{t: divTerm("div", argv(0).t, argv(1).t), sort: "Int"}
	case "mod":
		return SV{t: divTerm("mod", argv(0).t, argv(1).t), sort: "Int"}
	case "ite":
		return SV{t: fmt.Sprintf("(ite %s %s %s)", argv(0).t, argv(1).t, argv(2).t), sort: argv(1).sort, gt: argv(1).gt}
	case "i2f32":
		return SV{t: fmt.Sprintf("((_ to_fp 8 24) RNE (to_real %s))", argv(0).t), sort: sortF32}
	case "sel": // raw SMT select on array-sorted state
		a := argv(0)
		return SV{t: fmt.Sprintf("(select %s %s)", a.t, argv(1).t), sort: arrayRange(a.sort)}
	case "snap": // snap(Store): the store's raw array in the current (or old) state, as a value
		if len(x.Args) == 1 && x.Args[0].Op == "id" {
			if sd := env.e.r.v.specs.Stores[x.Args[0].S]; sd != nil {
				bs := bytesSort(g)
				return SV{t: env.storeArr(sd), sort: fmt.Sprintf("(Array %s %s)", bs, bs)}
			}
		}
		env.fail("snap: argument must be a store name")
	case "within": // within(s, Store, expr): expr evaluated with the store's contents taken from snapshot s
		if len(x.Args) == 3 && x.Args[1].Op == "id" {
			if sd := env.e.r.v.specs.Stores[x.Args[1].S]; sd != nil {
				sv := argv(0)
				save := env.override
				env.override = map[string]string{}
				for k, v := range save {
					env.override[k] = v
				}
				env.override[sd.KV] = sv.t
				r := env.expr(x.Args[2])
				env.override = save
				return r
			}
		}
		env.fail("within: usage within(snapshot, Store, expr)")
	case "global": // global(name): the package-level variable of the function's own package, in the current (or old) state
		if len(x.Args) == 1 && x.Args[0].Op == "id" && env.e.r.fn != nil && env.e.r.fn.Pkg != nil {
			if g, ok := env.e.r.fn.Pkg.Members[x.Args[0].S].(*ssa.Global); ok {
				name := "glob:" + g.Pkg.Pkg.Path() + "." + g.Name()
				el := g.Type().(*types.Pointer).Elem()
				env.e.ensureState(name, g2sort(env, el))
				return SV{t: env.state(name), sort: env.e.g().SortOf(el), gt: el}
			}
			env.fail("global: no package-level variable %q", x.Args[0].S)
		}
	case "heap": // heap(TypeName)[ref]
		if len(x.Args) == 1 && x.Args[0].Op == "id" {
			_, gt := env.namedSort(x.Args[0].S)
			if gt != nil {
				h := env.e.heapFor(gt)
				return SV{t: env.state(h), sort: env.e.r.stSort[h]}
			}
		}
	}
	// user-defined pure function
	if pf, ok := env.e.r.v.specs.Pures[x.S]; ok {
		fn := env.e.r.v.declarePure(env.e, pf)
		var as []string
		for i := range x.Args {
			as = append(as, argv(i).t)
		}
		rs, rgt := env.quantSort(pf.Ret)
		if len(as) == 0 {
			return SV{t: fn, sort: rs, gt: rgt}
		}
		return SV{t: fmt.Sprintf("(%s %s)", fn, strings.Join(as, " ")), sort: rs, gt: rgt}
	}
	if sig, ok := env.e.r.v.specs.Ghosts[x.S]; ok {
		var as, sorts []string
		for i := range x.Args {
			as = append(as, argv(i).t)
		}
		for _, t := range sig[:len(sig)-1] {
			srt, _ := env.quantSort(t)
			sorts = append(sorts, srt)
		}
		rs, rgt := env.quantSort(sig[len(sig)-1])
		name := "gh_" + x.S
		g.DeclFun(name, sorts, rs)
		if len(as) == 0 {
			return SV{t: name, sort: rs, gt: rgt}
		}
		return SV{t: fmt.Sprintf("(%s %s)", name, strings.Join(as, " ")), sort: rs, gt: rgt}
	}
	// functional repo function under contract: F(args)
	for _, ct := range env.e.r.v.specs.Contracts {
		if ct.Functional && ct.Func == x.S {
			fn := env.e.r.v.findFunc(ct)
			if fn == nil {
				break
			}
			var as, sorts []string
			off := 0
			if fn.Signature.Recv() != nil {
				off = 1
			}
			for i := range x.Args {
				as = append(as, argv(i).t)
			}
			for i, p := range fn.Params {
				if i < off {
					continue
				}
				sorts = append(sorts, g.SortOf(p.Type()))
			}
			if off == 1 {
				env.fail("functional methods are not supported in specs")
				break
			}
			rt := fn.Signature.Results().At(0).Type()
			g.DeclFun(functionalName(ct), sorts, g.SortOf(rt))
			return SV{t: fmt.Sprintf("(%s %s)", functionalName(ct), strings.Join(as, " ")), sort: g.SortOf(rt), gt: rt}
		}
	}
	// uninterpreted helper declared by an external rule (e.g. key functions, ghost predicates)
	if x.S == "be64dec" || x.S == "be64enc" {
		declBE(g, bytesSort(g))
	}
	if sig, ok := env.e.r.v.ghostFuns[x.S]; ok {
		var as []string
		for i := range x.Args {
			as = append(as, argv(i).t)
		}
		g.DeclFun(x.S, sig.args, sig.ret)
		if len(as) == 0 {
			return SV{t: x.S, sort: sig.ret}
		}
		return SV{t: fmt.Sprintf("(%s %s)", x.S, strings.Join(as, " ")), sort: sig.ret}
	}
	env.fail("unknown spec function %q", x.S)
	return SV{t: "true", sort: "Bool"}
}

// declStr2Bytes declares the string/[]byte conversion pair with its round-trip axiom (conversion is injective, keeps length).
func declStr2Bytes(g *Gen, bs string) {
	g.DeclFun("str2bytes", []string{"Str"}, bs)
	g.DeclFun("bytes2str", []string{bs}, "Str")
	g.Axiom("str2bytes.roundtrip", fmt.Sprintf("(forall ((s Str)) (! (and (= (bytes2str (str2bytes s)) s) (not (%s_nil (str2bytes s))) (= (%s_len (str2bytes s)) (strlen s))) :pattern ((str2bytes s))))", bs, bs))
}

func g2sort(env *SpecEnv, t types.Type) string { return env.e.g().SortOf(t) }
