package main

// Registered replays (counterexamples turned into tests against the real code) and bounded stand-ins for assumed contracts.

import (
	"encoding/json"
	"os"
	"os/exec"
	"path/filepath"
	"strings"
)

type regBounded struct {
	Contract string `json:"contract"`
	Pkg      string `json:"pkg"`
	File     string `json:"file"`
	Run      string `json:"run"`
	Bound    string `json:"bound"`
}

type regReplay struct {
	Obligation string `json:"obligation"`
	Pkg        string `json:"pkg"`
	File       string `json:"file"`
	Run        string `json:"run"`
}

type registry struct {
	Bounded []regBounded `json:"bounded"`
	Replays []regReplay  `json:"replays"`
}

func loadRegistry(verifDir string) *registry {
	r := &registry{}
	b, err := os.ReadFile(filepath.Join(verifDir, "replay", "registry.json"))
	if err != nil {
		return r
	}
	json.Unmarshal(b, r)
	return r
}

// runGoReplay runs a registered test against /repo through the overlay script. ok == test passed.
func runGoReplay(verifDir, pkg, file, run string) (bool, string) {
	cmd := exec.Command(filepath.Join(verifDir, "replay", "run_replay.sh"), pkg, filepath.Join(verifDir, file), run)
	out, err := cmd.CombinedOutput()
	text := string(out)
	return err == nil && strings.Contains(text, "\nok") || (err == nil && strings.Contains(text, "PASS")), text
}
