package main

// Registered replays (counterexamples turned into tests against the real code) and bounded stand-ins for assumed contracts.

import (
	"encoding/json"
	"os"
	"os/exec"
	"path/filepath"
	"strings"
)

type regBounded struct {
	Contract string `json:"contract"`
	// a bounded CLAUSE (instead of a stand-in for an assumed contract): a clause of a property on a function under contract
	// that the verifier cannot reach, decided by bounded execution of the real code; run whenever the function is checked
	Clause     string   `json:"clause,omitempty"`
	Function   string   `json:"function,omitempty"`
	Properties []string `json:"properties,omitempty"`
	Pkg      string `json:"pkg"`
	File     string `json:"file"`
	Run      string `json:"run"`
	Bound    string `json:"bound"`
}

type regReplay struct {
	Obligation string `json:"obligation"`
	Pkg        string `json:"pkg"`
	File       string `json:"file"`
	Run        string `json:"run"`
}

// the tree replays and bounded checks run against (the -repo of this run)
var replayRepo = "/repo"

type registry struct {
	Bounded []regBounded `json:"bounded"`
	Replays []regReplay  `json:"replays"`
}

func loadRegistry(verifDir string) *registry {
	r := &registry{}
	b, err := os.ReadFile(filepath.Join(verifDir, "replay", "registry.json"))
	if err != nil {
		return r
	}
	json.Unmarshal(b, r)
	return r
}

// runGoReplay runs a registered test against /repo through the overlay script. ok == test passed.
func runGoReplay(verifDir, pkg, file, run string) (bool, string) {
	cmd := exec.Command(filepath.Join(verifDir, "replay", "run_replay.sh"), pkg, filepath.Join(verifDir, file), run)
	cmd.Env = append(os.Environ(), "GOVC_REPO="+replayRepo)
	out, err := cmd.CombinedOutput()
	text := string(out)
	return err == nil && strings.Contains(text, "\nok") || (err == nil && strings.Contains(text, "PASS")), text
}
