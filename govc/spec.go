package main

// Spec expression language: tokenizer, parser (AST), used by contracts.

import (
	"fmt"
	"strings"
	"unicode"
)

type tok struct {
	k string // "id", "num", "str", "op", "eof"
	s string
}

func lexSpec(src string) ([]tok, error) {
	var out []tok
	i := 0
	for i < len(src) {
		c := src[i]
		switch {
		case c == ' ' || c == '\t' || c == '\n' || c == '\r':
			i++
		case unicode.IsLetter(rune(c)) || c == '_':
			j := i
			for j < len(src) && (unicode.IsLetter(rune(src[j])) || unicode.IsDigit(rune(src[j])) || src[j] == '_' || src[j] == '\'') {
				j++
			}
			out = append(out, tok{"id", src[i:j]})
			i = j
		case unicode.IsDigit(rune(c)):
			j := i
			for j < len(src) && (unicode.IsDigit(rune(src[j])) || src[j] == '_') {
				j++
			}
			if j < len(src) && src[j] == '.' && j+1 < len(src) && unicode.IsDigit(rune(src[j+1])) {
				j++
				for j < len(src) && unicode.IsDigit(rune(src[j])) {
					j++
				}
				out = append(out, tok{"fnum", src[i:j]})
				i = j
				break
			}
			out = append(out, tok{"num", strings.ReplaceAll(src[i:j], "_", "")})
			i = j
		case c == '"':
			j := i + 1
			for j < len(src) && src[j] != '"' {
				if src[j] == '\\' {
					j++
				}
				j++
			}
			if j >= len(src) {
				return nil, fmt.Errorf("unterminated string")
			}
			s := src[i+1 : j]
			s = strings.ReplaceAll(s, `\"`, `"`)
			s = strings.ReplaceAll(s, `\\`, `\`)
			out = append(out, tok{"str", s})
			i = j + 1
		default:
			ops := []string{"<==>", "==>", "::", "==", "!=", "<=", ">=", "&&", "||", "<", ">", "+", "-", "*", "/", "%", "!", "(", ")", "[", "]", ",", ".", "?", ":", "&", "|", "^", "@"}
			found := false
			for _, op := range ops {
				if strings.HasPrefix(src[i:], op) {
					out = append(out, tok{"op", op})
					i += len(op)
					found = true
					break
				}
			}
			if !found {
				return nil, fmt.Errorf("bad character %q in spec %q", c, src)
			}
		}
	}
	out = append(out, tok{"eof", ""})
	return out, nil
}

// AST
type SExpr struct {
	Op   string // "id","num","fnum","str","bin","un","call","field","index","quant","old","cond","slice"
	S    string // identifier / operator / literal / quantifier kind
	Args []*SExpr
	Vars [][2]string // quantifier vars: name,type
}

type specParser struct {
	toks []tok
	p    int
}

func parseSpec(src string) (*SExpr, error) {
	toks, err := lexSpec(src)
	if err != nil {
		return nil, err
	}
	sp := &specParser{toks: toks}
	e, err := sp.expr(0)
	if err != nil {
		return nil, fmt.Errorf("%v in spec %q", err, src)
	}
	if sp.peek().k != "eof" {
		return nil, fmt.Errorf("trailing tokens at %q in spec %q", sp.peek().s, src)
	}
	return e, nil
}

func (p *specParser) peek() tok { return p.toks[p.p] }
func (p *specParser) next() tok { t := p.toks[p.p]; p.p++; return t }
func (p *specParser) accept(s string) bool {
	if t := p.peek(); t.k == "op" && t.s == s {
		p.p++
		return true
	}
	return false
}
func (p *specParser) expect(s string) error {
	if !p.accept(s) {
		return fmt.Errorf("expected %q, got %q", s, p.peek().s)
	}
	return nil
}

var binPrec = map[string]int{
	"<==>": 1, "==>": 2, "||": 3, "&&": 4,
	"==": 5, "!=": 5, "<": 5, "<=": 5, ">": 5, ">=": 5,
	"+": 6, "-": 6, "|": 6, "^": 6,
	"*": 7, "/": 7, "%": 7, "&": 7,
}

func (p *specParser) expr(minPrec int) (*SExpr, error) {
	// quantifiers bind weakest and extend as far right as possible
	if t := p.peek(); t.k == "id" && (t.s == "forall" || t.s == "exists") {
		p.next()
		q := &SExpr{Op: "quant", S: t.s}
		for {
			n := p.next()
			if n.k != "id" {
				return nil, fmt.Errorf("quantifier variable expected")
			}
			ty := p.next()
			if ty.k != "id" {
				return nil, fmt.Errorf("quantifier variable type expected")
			}
			q.Vars = append(q.Vars, [2]string{n.s, ty.s})
			if !p.accept(",") {
				break
			}
		}
		if err := p.expect("::"); err != nil {
			return nil, err
		}
		body, err := p.expr(0)
		if err != nil {
			return nil, err
		}
		q.Args = []*SExpr{body}
		return q, nil
	}
	lhs, err := p.unary()
	if err != nil {
		return nil, err
	}
	for {
		t := p.peek()
		if t.k != "op" {
			break
		}
		if t.s == "?" && minPrec == 0 {
			p.next()
			a, err := p.expr(0)
			if err != nil {
				return nil, err
			}
			if err := p.expect(":"); err != nil {
				return nil, err
			}
			b, err := p.expr(0)
			if err != nil {
				return nil, err
			}
			lhs = &SExpr{Op: "cond", Args: []*SExpr{lhs, a, b}}
			continue
		}
		prec, ok := binPrec[t.s]
		if !ok || prec < minPrec {
			break
		}
		p.next()
		var rhs *SExpr
		if t.s == "==>" {
			rhs, err = p.exprQ(prec) // right assoc
		} else {
			rhs, err = p.exprQ(prec + 1)
		}
		if err != nil {
			return nil, err
		}
		lhs = &SExpr{Op: "bin", S: t.s, Args: []*SExpr{lhs, rhs}}
	}
	return lhs, nil
}

// exprQ: like expr but allows a quantifier on the right-hand side of an operator
func (p *specParser) exprQ(minPrec int) (*SExpr, error) {
	if t := p.peek(); t.k == "id" && (t.s == "forall" || t.s == "exists") {
		return p.expr(0)
	}
	return p.expr(minPrec)
}

func (p *specParser) unary() (*SExpr, error) {
	if p.accept("!") {
		e, err := p.unary()
		if err != nil {
			return nil, err
		}
		return &SExpr{Op: "un", S: "!", Args: []*SExpr{e}}, nil
	}
	if p.accept("-") {
		e, err := p.unary()
		if err != nil {
			return nil, err
		}
		return &SExpr{Op: "un", S: "-", Args: []*SExpr{e}}, nil
	}
	if p.accept("*") {
		e, err := p.unary()
		if err != nil {
			return nil, err
		}
		return &SExpr{Op: "un", S: "*", Args: []*SExpr{e}}, nil
	}
	return p.postfix()
}

func (p *specParser) postfix() (*SExpr, error) {
	e, err := p.primary()
	if err != nil {
		return nil, err
	}
	for {
		switch {
		case p.accept("."):
			t := p.next()
			if t.k != "id" {
				return nil, fmt.Errorf("field name expected")
			}
			e = &SExpr{Op: "field", S: t.s, Args: []*SExpr{e}}
		case p.accept("["):
			// index or slice
			if p.accept(":") {
				hi, err := p.expr(0)
				if err != nil {
					return nil, err
				}
				if err := p.expect("]"); err != nil {
					return nil, err
				}
				e = &SExpr{Op: "slice", Args: []*SExpr{e, nil, hi}}
				continue
			}
			i, err := p.expr(0)
			if err != nil {
				return nil, err
			}
			if p.accept(":") {
				var hi *SExpr
				if !p.accept("]") {
					hi, err = p.expr(0)
					if err != nil {
						return nil, err
					}
					if err := p.expect("]"); err != nil {
						return nil, err
					}
				}
				e = &SExpr{Op: "slice", Args: []*SExpr{e, i, hi}}
				continue
			}
			if err := p.expect("]"); err != nil {
				return nil, err
			}
			e = &SExpr{Op: "index", Args: []*SExpr{e, i}}
		case p.peek().k == "op" && p.peek().s == "(" && e.Op == "id":
			p.next()
			var args []*SExpr
			if !p.accept(")") {
				for {
					a, err := p.expr(0)
					if err != nil {
						return nil, err
					}
					args = append(args, a)
					if p.accept(")") {
						break
					}
					if err := p.expect(","); err != nil {
						return nil, err
					}
				}
			}
			if e.S == "old" && len(args) == 1 {
				e = &SExpr{Op: "old", Args: args}
			} else if e.S == "now" && len(args) == 1 {
				e = &SExpr{Op: "now", Args: args}
			} else if e.S == "entry" && len(args) == 1 {
				e = &SExpr{Op: "entry", Args: args}
			} else if e.S == "iter" && len(args) == 1 {
				e = &SExpr{Op: "iter", Args: args}
			} else {
				e = &SExpr{Op: "call", S: e.S, Args: args}
			}
		default:
			return e, nil
		}
	}
}

func (p *specParser) primary() (*SExpr, error) {
	t := p.next()
	switch t.k {
	case "id":
		return &SExpr{Op: "id", S: t.s}, nil
	case "num":
		return &SExpr{Op: "num", S: t.s}, nil
	case "fnum":
		return &SExpr{Op: "fnum", S: t.s}, nil
	case "str":
		return &SExpr{Op: "str", S: t.s}, nil
	case "op":
		if t.s == "(" {
			e, err := p.expr(0)
			if err != nil {
				return nil, err
			}
			if err := p.expect(")"); err != nil {
				return nil, err
			}
			return e, nil
		}
	}
	return nil, fmt.Errorf("unexpected token %q", t.s)
}
