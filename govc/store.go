package main

// Assumed contracts: KV stores, codec, iterators, params, key constructors (repo functions treated as injective
// uninterpreted functions).

import (
	"fmt"
	"go/types"
	"os"
	"strings"

	"golang.org/x/tools/go/ssa"
)

func osReadFile(p string) ([]byte, error) { return os.ReadFile(p) }

type storeHandle struct {
	module string
	prefix string
	hasPfx bool
}

type iterInfo struct {
	id    string
	kv    string // state var
	snap  string // array term at creation
	keys  string // ghost key sequence (Array Int Bytes)
	n     string // length
	pos   string // state var name
	idxFn string
	rev   bool
}

var storeTab = map[*Enc]map[ssa.Value]*storeHandle{}

func (e *Enc) stores() map[ssa.Value]*storeHandle {
	m := storeTab[e]
	if m == nil {
		m = map[ssa.Value]*storeHandle{}
		storeTab[e] = m
	}
	return m
}

func bytesSort(g *Gen) string { return g.SortOf(types.NewSlice(types.Typ[types.Uint8])) }

func kvSort(g *Gen) string {
	bs := bytesSort(g)
	return fmt.Sprintf("(Array %s %s)", bs, bs)
}

// constStringOf traces a []byte / string valued SSA value back to a constant string.
func constStringOf(v ssa.Value) (string, bool) {
	switch x := v.(type) {
	case *ssa.Const:
		if x.Value == nil {
			return "", true // nil slice
		}
		return constantString(x), true
	case *ssa.Convert:
		return constStringOf(x.X)
	case *ssa.ChangeType:
		return constStringOf(x.X)
	case *ssa.Call:
		if fn := x.Call.StaticCallee(); fn != nil && fn.Name() == "KeyPrefix" && len(x.Call.Args) == 1 {
			return constStringOf(x.Call.Args[0])
		}
	case *ssa.Slice:
		if al, ok := x.X.(*ssa.Alloc); ok {
			if at, ok := al.Type().(*types.Pointer).Elem().Underlying().(*types.Array); ok && at.Len() == 0 {
				return "", true
			}
		}
	}
	return "", false
}

// keeperModule: the module whose store key a keeper field denotes.
func (e *Enc) storeModuleOf(v ssa.Value) (string, bool) {
	fieldName := ""
	var recvT types.Type
	switch x := v.(type) {
	case *ssa.UnOp:
		if fa, ok := x.X.(*ssa.FieldAddr); ok {
			st := fa.X.Type().(*types.Pointer).Elem().Underlying().(*types.Struct)
			fieldName = st.Field(fa.Field).Name()
			recvT = fa.X.Type().(*types.Pointer).Elem()
		}
	case *ssa.Field:
		st := x.X.Type().Underlying().(*types.Struct)
		fieldName = st.Field(x.Field).Name()
		recvT = x.X.Type()
	case *ssa.MakeInterface:
		return e.storeModuleOf(x.X)
	case *ssa.ChangeInterface:
		return e.storeModuleOf(x.X)
	}
	if fieldName == "" {
		return "", false
	}
	mod := ""
	if n := namedOf(recvT); n != nil && n.Obj().Pkg() != nil {
		parts := strings.Split(n.Obj().Pkg().Path(), "/")
		if len(parts) >= 2 && parts[len(parts)-1] == "keeper" {
			mod = parts[len(parts)-2]
		}
	}
	switch {
	case fieldName == "storeKey":
		return mod, mod != ""
	case strings.HasSuffix(fieldName, "StoreKey"):
		return strings.ToLower(strings.TrimSuffix(fieldName, "StoreKey")), true
	}
	return "", false
}

func (e *Enc) handleOf(v ssa.Value) *storeHandle {
	if h, ok := e.stores()[v]; ok {
		return h
	}
	switch x := v.(type) {
	case *ssa.MakeInterface:
		return e.handleOf(x.X)
	case *ssa.ChangeInterface:
		return e.handleOf(x.X)
	case *ssa.UnOp:
		// load of a local holding the store
		if a, ok := x.X.(*ssa.Alloc); ok {
			for _, ref := range *a.Referrers() {
				if st, ok := ref.(*ssa.Store); ok && st.Addr == a {
					return e.handleOf(st.Val)
				}
			}
		}
	case *ssa.Parameter:
		// inlined callee: parameter bound to caller's value
	}
	// look through parent encoders (inlined callee parameters)
	return nil
}

func (e *Enc) kvName(h *storeHandle) string {
	name := "kv:" + h.module + "/" + h.prefix
	e.ensureState(name, kvSort(e.g()))
	e.g().usedExt["kv-prefix-disjointness:"+h.module+"/"+h.prefix] = true
	return name
}

func init() {
	C := "(" + sdkT + ".Context)."
	extRules[C+"BlockHeader"] = func(cc *callCtx) ([]string, bool) { return []string{"0"}, true }
	extRules[C+"KVStore"] = func(cc *callCtx) ([]string, bool) {
		mod, ok := cc.e.storeModuleOf(cc.args[1])
		if !ok {
			cc.e.r.errorf("outside subset: KVStore with untraceable store key in %s", cc.e.fn.Name())
			return nil, false
		}
		cc.e.g().usedExt["wiring:storeKey("+mod+")"] = true
		cc.e.stores()[cc.val] = &storeHandle{module: mod}
		return []string{"0"}, true
	}
	extRules["github.com/cosmos/cosmos-sdk/store/prefix.NewStore"] = func(cc *callCtx) ([]string, bool) {
		h := cc.e.handleOf(cc.args[0])
		p, ok := constStringOf(cc.args[1])
		if h == nil || !ok {
			cc.e.r.errorf("outside subset: prefix.NewStore with non-constant prefix or unknown parent in %s", cc.e.fn.Name())
			return nil, false
		}
		cc.e.stores()[cc.val] = &storeHandle{module: h.module, prefix: h.prefix + p, hasPfx: true}
		return []string{cc.e.g().Zero(cc.resType(0))}, true
	}
	P := "(github.com/cosmos/cosmos-sdk/store/prefix.Store)."
	get := func(cc *callCtx) ([]string, bool) {
		h := cc.e.handleOf(cc.args[0])
		if h == nil {
			cc.e.r.errorf("outside subset: store access through untraceable handle in %s", cc.e.fn.Name())
			return nil, false
		}
		kv := cc.e.kvName(h)
		bs := bytesSort(cc.e.g())
		r := cc.def("kvget", bs, fmt.Sprintf("(select %s %s)", cc.e.getState(kv), cc.arg(1)))
		cc.e.typeInv(r, types.NewSlice(types.Typ[types.Uint8]), 0)
		if inv := cc.e.keyInv(kv, cc.arg(1), r); inv != "" {
			cc.e.r.assume(inv)
		}
		return []string{r}, true
	}
	has := func(cc *callCtx) ([]string, bool) {
		h := cc.e.handleOf(cc.args[0])
		if h == nil {
			return nil, false
		}
		kv := cc.e.kvName(h)
		bs := bytesSort(cc.e.g())
		return []string{cc.def("kvhas", "Bool", fmt.Sprintf("(not (%s_nil (select %s %s)))", bs, cc.e.getState(kv), cc.arg(1)))}, true
	}
	set := func(cc *callCtx) ([]string, bool) {
		h := cc.e.handleOf(cc.args[0])
		if h == nil {
			cc.e.r.errorf("outside subset: store access through untraceable handle in %s", cc.e.fn.Name())
			return nil, false
		}
		kv := cc.e.kvName(h)
		bs := bytesSort(cc.e.g())
		cc.e.panicIf(fmt.Sprintf("(%s_nil %s)", bs, cc.arg(2)), "KVStore.Set: nil value", cc.ins)
		if inv := cc.e.keyInv(kv, cc.arg(1), cc.arg(2)); inv != "" {
			// store invariant: the entry is written under the key derived from its own key field
			cc.e.r.addObl(&Obligation{Name: fmt.Sprintf("%s#storeinv@%s", cc.e.r.fnShort, mangle(kv)), Kind: "storeinv",
				Goal: fmt.Sprintf("(=> %s %s)", cc.e.reach[cc.e.cur], inv), Src: "write to " + kv + " keeps the key-field invariant at " + posStr(cc.e.fn.Prog.Fset, cc.ins.Pos())})
		}
		cc.e.setState(kv, "", fmt.Sprintf("(store %s %s %s)", cc.e.getState(kv), cc.arg(1), cc.arg(2)))
		return nil, true
	}
	del := func(cc *callCtx) ([]string, bool) {
		h := cc.e.handleOf(cc.args[0])
		if h == nil {
			cc.e.r.errorf("outside subset: store access through untraceable handle in %s", cc.e.fn.Name())
			return nil, false
		}
		kv := cc.e.kvName(h)
		bs := bytesSort(cc.e.g())
		cc.e.setState(kv, "", fmt.Sprintf("(store %s %s %s)", cc.e.getState(kv), cc.arg(1), cc.e.g().NilSlice(bs)))
		return nil, true
	}
	for _, p := range []string{P, "(github.com/cosmos/cosmos-sdk/store/types.KVStore).", "(" + sdkT + ".KVStore)."} {
		extRules[p+"Get"] = get
		extRules[p+"Has"] = has
		extRules[p+"Set"] = set
		extRules[p+"Delete"] = del
	}

	// ---- codec
	for _, cdc := range []string{"(github.com/cosmos/cosmos-sdk/codec.BinaryCodec).", "(github.com/cosmos/cosmos-sdk/codec.Codec)."} {
		extRules[cdc+"MustMarshal"] = func(cc *callCtx) ([]string, bool) {
			e := cc.e
			src := boxedPtr(e, cc.args[1])
			if src == nil {
				e.r.errorf("outside subset: MustMarshal of untraceable value in %s", e.fn.Name())
				return nil, false
			}
			l := e.locOf(src)
			v, t := e.load(l)
			vs := e.g().SortOf(t)
			return []string{cc.def("mar", bytesSort(e.g()), fmt.Sprintf("(%s %s)", marshalFun(e.g(), vs), v))}, true
		}
		unm := func(must bool) extRule {
			return func(cc *callCtx) ([]string, bool) {
				e := cc.e
				dst := boxedPtr(e, cc.args[2])
				if dst == nil {
					e.r.errorf("outside subset: Unmarshal into untraceable pointer in %s", e.fn.Name())
					return nil, false
				}
				l := e.locOf(dst)
				_, t := e.load(l)
				vs := e.g().SortOf(t)
				val := cc.def("unm", vs, fmt.Sprintf("(%s %s)", unmarshalFun(e.g(), vs), cc.arg(1)))
				e.typeInv(val, t, 0)
				if must {
					e.store(l, val)
					return nil, true
				}
				err := e.havocSort("Int", "unmerr")
				junk := e.havoc(t, "unmjunk")
				e.store(l, fmt.Sprintf("(ite (= %s 0) %s %s)", err, val, junk))
				return []string{err}, true
			}
		}
		extRules[cdc+"MustUnmarshal"] = unm(true)
		extRules[cdc+"Unmarshal"] = unm(false)
	}

	// ---- iterators
	extRules[sdkT+".KVStorePrefixIterator"] = func(cc *callCtx) ([]string, bool) { return newIter(cc, false) }
	extRules[sdkT+".KVStoreReversePrefixIterator"] = func(cc *callCtx) ([]string, bool) { return newIter(cc, true) }
	for _, it := range []string{"(github.com/cosmos/cosmos-sdk/store/types.Iterator).", "(github.com/tendermint/tm-db.Iterator).", "(" + sdkT + ".Iterator)."} {
		extRules[it+"Valid"] = func(cc *callCtx) ([]string, bool) {
			ii := cc.e.iterOf(cc.args[0])
			if ii == nil {
				return nil, false
			}
			return []string{cc.def("itvalid", "Bool", fmt.Sprintf("(< %s %s)", cc.e.getState(ii.pos), ii.n))}, true
		}
		extRules[it+"Next"] = func(cc *callCtx) ([]string, bool) {
			ii := cc.e.iterOf(cc.args[0])
			if ii == nil {
				return nil, false
			}
			p := cc.e.getState(ii.pos)
			cc.e.panicIf(fmt.Sprintf("(>= %s %s)", p, ii.n), "Iterator.Next: invalid iterator", cc.ins)
			cc.e.setState(ii.pos, "Int", fmt.Sprintf("(+ %s 1)", p))
			return nil, true
		}
		extRules[it+"Key"] = func(cc *callCtx) ([]string, bool) {
			ii := cc.e.iterOf(cc.args[0])
			if ii == nil {
				return nil, false
			}
			p := cc.e.getState(ii.pos)
			cc.e.panicIf(fmt.Sprintf("(>= %s %s)", p, ii.n), "Iterator.Key: invalid iterator", cc.ins)
			return []string{cc.def("itkey", bytesSort(cc.e.g()), fmt.Sprintf("(select %s %s)", ii.keys, p))}, true
		}
		extRules[it+"Value"] = func(cc *callCtx) ([]string, bool) {
			ii := cc.e.iterOf(cc.args[0])
			if ii == nil {
				return nil, false
			}
			p := cc.e.getState(ii.pos)
			cc.e.panicIf(fmt.Sprintf("(>= %s %s)", p, ii.n), "Iterator.Value: invalid iterator", cc.ins)
			val := cc.def("itval", bytesSort(cc.e.g()), fmt.Sprintf("(select %s (select %s %s))", ii.snap, ii.keys, p))
			if inv := cc.e.keyInv(ii.kv, fmt.Sprintf("(select %s %s)", ii.keys, p), val); inv != "" {
				cc.e.r.assume(inv)
			}
			return []string{val}, true
		}
		extRules[it+"Close"] = func(cc *callCtx) ([]string, bool) { return []string{"0"}, true }
	}

	// ---- params
	for _, ps := range []string{"(github.com/cosmos/cosmos-sdk/x/params/types.Subspace)."} {
		extRules[ps+"Get"] = func(cc *callCtx) ([]string, bool) {
			e := cc.e
			// key is a package-level []byte variable: identify the parameter by that variable
			keyName := ""
			if u, ok := cc.args[2].(*ssa.UnOp); ok {
				if g, ok := u.X.(*ssa.Global); ok {
					keyName = g.Pkg.Pkg.Path() + "." + g.Name()
				}
			}
			dst := boxedPtr(e, cc.args[3])
			if keyName == "" || dst == nil {
				e.r.errorf("outside subset: params Get with untraceable key or target in %s", e.fn.Name())
				return nil, false
			}
			l := e.locOf(dst)
			_, t := e.load(l)
			name := "param:" + keyName
			e.ensureState(name, e.g().SortOf(t))
			v := e.getState(name)
			e.typeInv(v, t, 0)
			e.store(l, v)
			return nil, true
		}
		extRules[ps+"GetParamSet"] = func(cc *callCtx) ([]string, bool) {
			e := cc.e
			dst := boxedPtr(e, cc.args[2])
			if dst == nil {
				return nil, false
			}
			l := e.locOf(dst)
			_, t := e.load(l)
			name := "paramset:" + typeFullName(types.Unalias(t))
			e.ensureState(name, e.g().SortOf(t))
			v := e.getState(name)
			e.typeInv(v, t, 0)
			e.store(l, v)
			return nil, true
		}
		extRules[ps+"SetParamSet"] = func(cc *callCtx) ([]string, bool) {
			e := cc.e
			src := boxedPtr(e, cc.args[2])
			if src == nil {
				return nil, false
			}
			l := e.locOf(src)
			v, t := e.load(l)
			name := "paramset:" + typeFullName(types.Unalias(t))
			e.ensureState(name, e.g().SortOf(t))
			e.setState(name, "", v)
			return nil, true
		}
	}

	// ---- encoding/binary big endian
	extRules["(encoding/binary.bigEndian).Uint64"] = func(cc *callCtx) ([]string, bool) {
		g := cc.e.g()
		bs := bytesSort(g)
		declBE(g, bs)
		b := cc.arg(1)
		cc.e.panicIf(fmt.Sprintf("(< (%s_len %s) 8)", bs, b), "binary.BigEndian.Uint64: short buffer", cc.ins)
		r := cc.def("be", "Int", fmt.Sprintf("(be64dec %s)", b))
		cc.e.rangeAssume(r, types.Typ[types.Uint64])
		return []string{r}, true
	}
	extRules["(encoding/binary.bigEndian).PutUint64"] = func(cc *callCtx) ([]string, bool) {
		// in-place write into a slice created by make([]byte, 8) in the same function: rebind the SSA value
		g := cc.e.g()
		bs := bytesSort(g)
		declBE(g, bs)
		okShape := false
		switch ms := cc.args[1].(type) {
		case *ssa.MakeSlice:
			if n, ok := constInt(ms.Len); ok && n == 8 {
				okShape = true
			}
		case *ssa.Slice:
			if al, ok := ms.X.(*ssa.Alloc); ok && ms.Low == nil {
				if at, ok := al.Type().(*types.Pointer).Elem().Underlying().(*types.Array); ok && at.Len() == 8 {
					okShape = true
				}
			}
		}
		if !okShape {
			cc.e.r.errorf("outside subset: PutUint64 into a slice that is not a local make([]byte, 8) in %s", cc.e.fn.Name())
			return nil, false
		}
		cc.e.vals[cc.args[1]] = cc.def("beenc", bs, fmt.Sprintf("(be64enc %s)", cc.arg(2)))
		return nil, true
	}
}

func declBE(g *Gen, bs string) {
	g.DeclFun("be64enc", []string{"Int"}, bs)
	g.DeclFun("be64dec", []string{bs}, "Int")
	g.Axiom("be64.roundtrip", fmt.Sprintf("(forall ((x Int)) (! (=> (and (<= 0 x) (<= x 18446744073709551615)) (and (= (be64dec (be64enc x)) x) (not (%s_nil (be64enc x))) (= (%s_len (be64enc x)) 8))) :pattern ((be64enc x))))", bs, bs))
}

// boxedPtr: the pointer value passed as an interface argument (codec.ProtoMarshaler etc.)
func boxedPtr(e *Enc, v ssa.Value) ssa.Value {
	switch x := v.(type) {
	case *ssa.MakeInterface:
		return x.X
	case *ssa.ChangeInterface:
		return boxedPtr(e, x.X)
	}
	if _, ok := types.Unalias(v.Type()).Underlying().(*types.Pointer); ok {
		return v
	}
	return nil
}

func (e *Enc) iterOf(v ssa.Value) *iterInfo {
	if e.iters != nil {
		if ii, ok := e.iters[v]; ok {
			return ii
		}
	}
	e.r.errorf("outside subset: iterator method on untraceable iterator in %s", e.fn.Name())
	return nil
}

func newIter(cc *callCtx, rev bool) ([]string, bool) {
	e := cc.e
	g := e.g()
	h := e.handleOf(cc.args[0])
	p, ok := constStringOf(cc.args[1])
	if h == nil || !ok || p != "" {
		e.r.errorf("outside subset: prefix iterator with non-empty prefix or unknown store in %s", e.fn.Name())
		return nil, false
	}
	kv := e.kvName(h)
	bs := bytesSort(g)
	id := e.r.fresh("it")
	ii := &iterInfo{id: id, kv: kv, rev: rev}
	ii.snap = e.r.def(id+"_snap", kvSort(g), e.getState(kv))
	ii.keys = e.r.decl(id+"_keys", fmt.Sprintf("(Array Int %s)", bs))
	ii.n = e.r.decl(id+"_n", "Int")
	ii.pos = "iter:" + id
	e.ensureState(ii.pos, "Int")
	e.setState(ii.pos, "Int", "0")
	ii.idxFn = id + "_idx"
	e.r.items = append(e.r.items, Item{"decl", fmt.Sprintf("(declare-fun %s (%s) Int)", ii.idxFn, bs), e.r.curBlock})
	g.DeclFun("klt", []string{bs, bs}, "Bool")
	g.Axiom("klt.order", fmt.Sprintf("(and (forall ((a %s)) (! (not (klt a a)) :pattern ((klt a a)))) (forall ((a %s) (b %s) (c %s)) (! (=> (and (klt a b) (klt b c)) (klt a c)) :pattern ((klt a b) (klt b c)))))", bs, bs, bs, bs))
	e.r.assume(fmt.Sprintf("(>= %s 0)", ii.n))
	// every enumerated key is present
	e.r.assume(fmt.Sprintf("(forall ((i!i Int)) (! (=> (and (<= 0 i!i) (< i!i %s)) (not (%s_nil (select %s (select %s i!i))))) :pattern ((select %s i!i))))", ii.n, bs, ii.snap, ii.keys, ii.keys))
	// every present key is enumerated
	e.r.assume(fmt.Sprintf("(forall ((k!i %s)) (! (=> (not (%s_nil (select %s k!i))) (and (<= 0 (%s k!i)) (< (%s k!i) %s) (= (select %s (%s k!i)) k!i))) :pattern ((select %s k!i))))", bs, bs, ii.snap, ii.idxFn, ii.idxFn, ii.n, ii.keys, ii.idxFn, ii.snap))
	// strictly ordered
	lt := "klt"
	a, b := "i!i", "j!i"
	if rev {
		a, b = b, a
	}
	e.r.assume(fmt.Sprintf("(forall ((i!i Int) (j!i Int)) (! (=> (and (<= 0 i!i) (< i!i j!i) (< j!i %s)) (%s (select %s %s) (select %s %s))) :pattern ((select %s i!i) (select %s j!i))))", ii.n, lt, ii.keys, a, ii.keys, b, ii.keys, ii.keys))
	if e.iters == nil {
		e.iters = map[ssa.Value]*iterInfo{}
	}
	e.iters[cc.val] = ii
	return []string{"0"}, true
}

// repoRule: /repo functions that are not verified but treated as uninterpreted, injective key constructors.
func (v *Verifier) repoRule(fn *ssa.Function) (extRule, bool) {
	if fn.Pkg == nil || fn.Signature.Recv() != nil {
		return nil, false
	}
	name := fn.Name()
	res := fn.Signature.Results()
	if res.Len() != 1 || !isByteSlice(res.At(0).Type()) {
		return nil, false
	}
	if name == "KeyPrefix" {
		return func(cc *callCtx) ([]string, bool) {
			g := cc.e.g()
			bs := bytesSort(g)
			g.DeclFun("str2bytes", []string{"Str"}, bs)
			return []string{fmt.Sprintf("(str2bytes %s)", cc.arg(0))}, true
		}, true
	}
	if strings.HasSuffix(name, "Key") && strings.HasSuffix(fn.Pkg.Pkg.Path(), "/types") {
		return func(cc *callCtx) ([]string, bool) {
			g := cc.e.g()
			kf := "key_" + pkgShort(fn.Pkg.Pkg.Path()) + "_" + name
			var sorts, args []string
			for i, p := range fn.Params {
				sorts = append(sorts, g.SortOf(p.Type()))
				args = append(args, cc.arg(i))
			}
			v.declareKeyFun(g, kf, sorts)
			if len(args) == 0 {
				return []string{kf}, true
			}
			return []string{cc.def("key", bytesSort(g), fmt.Sprintf("(%s %s)", kf, strings.Join(args, " ")))}, true
		}, true
	}
	return nil, false
}

// keyInv: the key-field invariant instance of a typed store for one raw (key, value) pair:
// value present ==> key == keyfun(unmarshal(value).KeyField). Empty if the KV prefix has no such invariant declared.
func (e *Enc) keyInv(kv, key, val string) string {
	for _, name := range sortedKeys(e.r.v.specs.Stores) {
		sd := e.r.v.specs.Stores[name]
		if sd.KV != kv || sd.KeyField == "" || sd.Raw {
			continue
		}
		vt := e.r.v.lookupType(sd.ValTy)
		if vt == nil {
			return ""
		}
		g := e.g()
		vs := g.SortOf(vt)
		env := &SpecEnv{e: e, vars: map[string]SV{}, cur: e.st, old: map[string]string{}, errCtx: "store invariant of " + sd.Name, noLocals: true}
		v := SV{t: fmt.Sprintf("(%s %s)", unmarshalFun(g, vs), val), sort: vs, gt: vt}
		f := env.field(v, sd.KeyField)
		bs := bytesSort(g)
		return fmt.Sprintf("(=> (not (%s_nil %s)) (= %s %s))", bs, val, key, env.storeKey(sd, []SV{f}))
	}
	return ""
}
