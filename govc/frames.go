package main

// Determinism / residue frames (C01, C03): per-transition "reads" frame obligations over the go/ssa def-use and call graph.
// A transition's closure must not (a) read or write a mutable package-level variable of the repository, (b) let the result of
// a non-consensus source (wall clock, random numbers, environment) reach anything but an effect-free sink, (c) iterate over a
// Go map unless the loop carries an order-independence contract discharged by SMT, (d) use goroutines/channels/select.
// These are frame conditions (what the transition may depend on), decided on the SSA of the real code; no SMT is involved
// except for (c).

import (
	"fmt"
	"go/token"
	"go/types"
	"sort"
	"strings"

	"golang.org/x/tools/go/ssa"
)

type transition struct {
	Name string
	Fn   *ssa.Function
	Kind string // handler, blocker, hook, genesis
}

var repoModules = []string{"sao", "node", "order", "model", "market", "did"}

func (v *Verifier) transitions() []transition {
	var out []transition
	add := func(kind string, fn *ssa.Function) {
		if fn == nil || fn.Blocks == nil {
			return
		}
		out = append(out, transition{Name: strings.TrimPrefix(fn.String(), repoMod+"/"), Fn: fn, Kind: kind})
	}
	for _, m := range repoModules {
		if kp := v.ssaPkgs[repoMod+"/x/"+m+"/keeper"]; kp != nil {
			for _, tn := range []string{"msgServer", "Hooks"} {
				o := kp.Pkg.Scope().Lookup(tn)
				if o == nil {
					continue
				}
				for _, T := range []types.Type{o.Type(), types.NewPointer(o.Type())} {
					ms := v.prog.MethodSets.MethodSet(T)
					for i := 0; i < ms.Len(); i++ {
						sel := ms.At(i)
						fn := v.prog.MethodValue(sel)
						if fn == nil || fn.Pkg != kp || fn.Synthetic != "" {
							continue
						}
						kind := "handler"
						if tn == "Hooks" {
							kind = "hook"
						} else {
							sig := fn.Signature
							if sig.Params().Len() != 2 || !strings.HasSuffix(sig.Params().At(0).Type().String(), "context.Context") {
								continue
							}
						}
						add(kind, fn)
					}
				}
			}
		}
		if mp := v.ssaPkgs[repoMod+"/x/"+m]; mp != nil {
			for _, fnName := range []string{"BeginBlocker", "EndBlocker", "EndBlock", "InitGenesis", "ExportGenesis"} {
				kind := "blocker"
				if strings.HasSuffix(fnName, "Genesis") {
					kind = "genesis"
				}
				add(kind, mp.Func(fnName))
			}
		}
	}
	// dedupe
	seen := map[*ssa.Function]bool{}
	var ded []transition
	for _, t := range out {
		if !seen[t.Fn] {
			seen[t.Fn] = true
			ded = append(ded, t)
		}
	}
	sort.Slice(ded, func(i, j int) bool { return ded[i].Name < ded[j].Name })
	return ded
}

// closureOf: repo functions reachable from fn through static calls, bound interface calls and closures.
func (v *Verifier) closureOf(fn *ssa.Function) []*ssa.Function {
	seen := map[*ssa.Function]bool{}
	var order []*ssa.Function
	var visit func(f *ssa.Function)
	dummy := &Enc{r: &Root{g: v.g, v: v}}
	visit = func(f *ssa.Function) {
		if f == nil || seen[f] || !inRepo(f) || f.Blocks == nil {
			return
		}
		seen[f] = true
		order = append(order, f)
		for _, af := range f.AnonFuncs {
			visit(af)
		}
		for _, b := range f.Blocks {
			for _, ins := range b.Instrs {
				var cc *ssa.CallCommon
				switch x := ins.(type) {
				case *ssa.Call:
					cc = &x.Call
				case *ssa.Defer:
					cc = &x.Call
				case *ssa.Go:
					cc = &x.Call
				}
				if cc == nil {
					continue
				}
				if cc.IsInvoke() {
					visit(v.resolveInvokeQuiet(dummy, cc))
				} else {
					visit(cc.StaticCallee())
				}
			}
		}
	}
	visit(fn)
	return order
}

func (v *Verifier) resolveInvokeQuiet(e *Enc, c *ssa.CallCommon) *ssa.Function {
	n := namedOf(c.Value.Type())
	if n == nil || n.Obj().Pkg() == nil || !isRepoPath(n.Obj().Pkg().Path()) {
		return nil
	}
	target, ok := ifaceBinding[n.Obj().Name()]
	if !ok {
		return nil
	}
	ct := v.lookupType(target)
	if ct == nil {
		return nil
	}
	fn := v.prog.LookupMethod(ct, c.Method.Pkg(), c.Method.Name())
	if fn == nil {
		fn = v.prog.LookupMethod(types.NewPointer(ct), c.Method.Pkg(), c.Method.Name())
	}
	return fn
}

func globalRoot(v ssa.Value) *ssa.Global {
	for {
		switch x := v.(type) {
		case *ssa.Global:
			return x
		case *ssa.FieldAddr:
			v = x.X
		case *ssa.IndexAddr:
			v = x.X
		case *ssa.UnOp:
			if x.Op == token.MUL {
				v = x.X
			} else {
				return nil
			}
		case *ssa.Slice:
			v = x.X
		default:
			return nil
		}
	}
}

// mutableGlobals: package-level variables of the repository written outside package initialisers.
func (v *Verifier) mutableGlobals() map[*ssa.Global]string {
	out := map[*ssa.Global]string{}
	for _, sp := range v.ssaPkgs {
		var fns []*ssa.Function
		for _, m := range sp.Members {
			switch x := m.(type) {
			case *ssa.Function:
				fns = append(fns, x)
			case *ssa.Type:
				for _, T := range []types.Type{x.Type(), types.NewPointer(x.Type())} {
					ms := v.prog.MethodSets.MethodSet(T)
					for i := 0; i < ms.Len(); i++ {
						if f := v.prog.MethodValue(ms.At(i)); f != nil && f.Pkg == sp {
							fns = append(fns, f)
						}
					}
				}
			}
		}
		var all []*ssa.Function
		for _, f := range fns {
			all = append(all, f)
			all = append(all, f.AnonFuncs...)
		}
		for _, f := range all {
			if f.Name() == "init" || strings.HasPrefix(f.Name(), "init#") || f.Blocks == nil {
				continue
			}
			for _, b := range f.Blocks {
				for _, ins := range b.Instrs {
					switch x := ins.(type) {
					case *ssa.Store:
						if g := globalRoot(x.Addr); g != nil && g.Pkg != nil && isRepoPath(g.Pkg.Pkg.Path()) {
							out[g] = f.String()
						}
					case *ssa.MapUpdate:
						if g := globalRoot(x.Map); g != nil && g.Pkg != nil && isRepoPath(g.Pkg.Pkg.Path()) {
							out[g] = f.String()
						}
					}
				}
			}
		}
	}
	return out
}

var nondetCallees = map[string]bool{"time.Now": true, "time.Since": true, "time.Until": true, "os.Getenv": true, "os.Hostname": true, "os.Getpid": true,
	"runtime.NumGoroutine": true, "runtime.NumCPU": true}

func isNondetCallee(name string) bool {
	if nondetCallees[name] {
		return true
	}
	// satori/go.uuid: V1/V2 are clock and host based, V4 is random; only the name-based V3/V5 are functions of their arguments
	if name == "github.com/satori/go.uuid.NewV1" || name == "github.com/satori/go.uuid.NewV2" || name == "github.com/satori/go.uuid.NewV4" {
		return true
	}
	return strings.HasPrefix(name, "math/rand.") || strings.HasPrefix(name, "crypto/rand.") || strings.HasPrefix(name, "github.com/google/uuid.New") ||
		strings.HasPrefix(name, "(*math/rand.Rand)")
}

// taintEscapes: does the value reach anything but an effect-free sink?
func taintEscapes(start ssa.Value) (bool, string) {
	seen := map[ssa.Value]bool{}
	work := []ssa.Value{start}
	for len(work) > 0 {
		v := work[len(work)-1]
		work = work[:len(work)-1]
		if seen[v] {
			continue
		}
		seen[v] = true
		refs := v.Referrers()
		if refs == nil {
			continue
		}
		for _, u := range *refs {
			switch x := u.(type) {
			case *ssa.DebugRef:
			case *ssa.Call:
				n := calleeNameStatic(&x.Call)
				if isSinkName(n) {
					continue
				}
				if n == "(time.Time).Unix" || n == "(time.Time).UnixNano" || n == "(time.Time).Sub" || n == "(time.Time).Add" || n == "(time.Duration).Seconds" {
					work = append(work, x)
					continue
				}
				return true, fmt.Sprintf("argument of %s", n)
			case *ssa.Defer:
				n := calleeNameStatic(&x.Call)
				if isSinkName(n) {
					continue
				}
				return true, fmt.Sprintf("argument of deferred %s", n)
			case *ssa.If:
				return true, "branch condition"
			case *ssa.Store:
				if a, ok := x.Addr.(*ssa.Alloc); ok && !a.Heap {
					// local variable: follow its loads
					for _, r2 := range *a.Referrers() {
						if ld, ok := r2.(*ssa.UnOp); ok && ld.Op == token.MUL {
							work = append(work, ld)
						}
					}
					continue
				}
				return true, "stored to memory"
			case *ssa.Return:
				return true, "returned"
			case *ssa.MapUpdate, *ssa.Send, *ssa.Panic:
				return true, fmt.Sprintf("%T", x)
			case ssa.Value:
				work = append(work, x)
			default:
				return true, fmt.Sprintf("%T", x)
			}
		}
	}
	return false, ""
}

func calleeNameStatic(c *ssa.CallCommon) string {
	if c.IsInvoke() {
		n := namedOf(c.Value.Type())
		if n != nil {
			p := ""
			if n.Obj().Pkg() != nil {
				p = n.Obj().Pkg().Path() + "."
			}
			return "(" + p + n.Obj().Name() + ")." + c.Method.Name()
		}
		return "(interface)." + c.Method.Name()
	}
	if fn := c.StaticCallee(); fn != nil {
		return extNameOf(fn)
	}
	if u, ok := c.Value.(*ssa.UnOp); ok {
		if g, ok := u.X.(*ssa.Global); ok {
			return g.Pkg.Pkg.Path() + "." + g.Name()
		}
	}
	return "dynamic"
}

type detResult struct {
	Name   string
	OK     bool
	Detail string
	Tags   []string
}

// detObligations: one obligation per (transition, source kind). prop is C01 or C03 (C03 = globals only).
func (v *Verifier) detObligations(prop string) ([]detResult, []string) {
	var out []detResult
	mut := v.mutableGlobals()
	trs := v.transitions()
	var names []string
	for _, t := range trs {
		names = append(names, t.Name)
		fns := v.closureOf(t.Fn)
		var globalHits, nondetHits, mapHits, concHits, aliasHits []string
		for _, f := range fns {
			for _, b := range f.Blocks {
				for _, ins := range b.Instrs {
					switch x := ins.(type) {
					case *ssa.Go, *ssa.Select, *ssa.Send:
						concHits = append(concHits, fmt.Sprintf("%T in %s", x, f.Name()))
					case *ssa.UnOp:
						if x.Op == token.ARROW {
							concHits = append(concHits, "channel receive in "+f.Name())
						}
						if x.Op == token.MUL {
							if g := globalRoot(x.X); g != nil {
								if w, ok := mut[g]; ok {
									globalHits = append(globalHits, fmt.Sprintf("%s reads %s.%s (written by %s)", f.Name(), pkgShort(g.Pkg.Pkg.Path()), g.Name(), shortFnName(w)))
								}
							}
						}
					case *ssa.Store:
						if ia, ok := x.Addr.(*ssa.IndexAddr); ok {
							if from := storeOwned(ia.X, map[ssa.Value]bool{}); from != "" {
								aliasHits = append(aliasHits, fmt.Sprintf("%s writes an element of the byte slice returned by %s (memory owned by the store / its caches: the write is visible outside the transaction and not rolled back)", f.Name(), from))
							}
						}
						if g := globalRoot(x.Addr); g != nil {
							if _, ok := mut[g]; ok {
								globalHits = append(globalHits, fmt.Sprintf("%s writes %s.%s", f.Name(), pkgShort(g.Pkg.Pkg.Path()), g.Name()))
							}
						}
					case *ssa.Range:
						if _, ok := types.Unalias(x.X.Type()).Underlying().(*types.Map); ok {
							if !v.mapRangeCovered(f) {
								mapHits = append(mapHits, "range over map in "+f.Name()+" without an order-independence loop contract")
							}
							// the loop contract speaks about the modelled state only; events are part of the transaction result
							// (C01) and are not modelled, so a body that emits one makes the result depend on the map order
							for _, h := range v.eventsInMapLoop(f, x) {
								mapHits = append(mapHits, h)
							}
						}
					case *ssa.Call:
						n := calleeNameStatic(&x.Call)
						if isNondetCallee(n) {
							if esc, how := taintEscapes(x); esc {
								nondetHits = append(nondetHits, fmt.Sprintf("%s: result of %s reaches %s", f.Name(), n, how))
							}
						}
					}
				}
			}
		}
		mk := func(kind string, hits []string, tags []string) {
			sort.Strings(hits)
			out = append(out, detResult{Name: fmt.Sprintf("det@%s#%s", t.Name, kind), OK: len(hits) == 0, Detail: strings.Join(dedupe(hits), "; "), Tags: tags})
		}
		mk("globals", globalHits, []string{"C01", "C03"})
		mk("store-memory", aliasHits, []string{"C01", "C03"})
		if prop != "C03" {
			mk("nondet-sources", nondetHits, []string{"C01"})
			mk("map-order", mapHits, []string{"C01"})
			mk("concurrency", concHits, []string{"C01"})
		}
	}
	return out, names
}

func dedupe(xs []string) []string {
	var out []string
	seen := map[string]bool{}
	for _, x := range xs {
		if !seen[x] {
			seen[x] = true
			out = append(out, x)
		}
	}
	return out
}

func shortFnName(s string) string {
	if i := strings.LastIndex(s, "/"); i >= 0 {
		return s[i+1:]
	}
	return s
}

// mapRangeCovered: the function is under contract and carries a loop clause tagged C01 (order-independence proved by SMT
// under the arbitrary-order semantics of map iteration).
// eventsInMapLoop: event emissions reachable from the body of the loop that ranges over map iterator rng.
func (v *Verifier) eventsInMapLoop(f *ssa.Function, rng *ssa.Range) []string {
	// header: the block holding the Next on this iterator
	var header *ssa.BasicBlock
	if refs := rng.Referrers(); refs != nil {
		for _, u := range *refs {
			if n, ok := u.(*ssa.Next); ok {
				header = n.Block()
			}
		}
	}
	if header == nil {
		return nil
	}
	// natural loop: blocks dominated by the header that can reach it
	reach := map[*ssa.BasicBlock]bool{}
	var canReach func(b *ssa.BasicBlock, seen map[*ssa.BasicBlock]bool) bool
	canReach = func(b *ssa.BasicBlock, seen map[*ssa.BasicBlock]bool) bool {
		if seen[b] {
			return false
		}
		seen[b] = true
		for _, s := range b.Succs {
			if s == header || canReach(s, seen) {
				return true
			}
		}
		return false
	}
	for _, b := range f.Blocks {
		if header.Dominates(b) && (b == header || canReach(b, map[*ssa.BasicBlock]bool{})) {
			reach[b] = true
		}
	}
	isEmit := func(n string) bool {
		return strings.Contains(n, "EventManager).Emit")
	}
	var hits []string
	dummy := &Enc{r: &Root{g: v.g, v: v}}
	for b := range reach {
		for _, ins := range b.Instrs {
			var cc *ssa.CallCommon
			switch x := ins.(type) {
			case *ssa.Call:
				cc = &x.Call
			case *ssa.Defer:
				cc = &x.Call
			}
			if cc == nil {
				continue
			}
			n := calleeNameStatic(cc)
			if isEmit(n) {
				hits = append(hits, fmt.Sprintf("%s emits an event (%s) inside a loop over a map: the order of the transaction's events follows the map iteration order", f.Name(), n))
				continue
			}
			var callee *ssa.Function
			if cc.IsInvoke() {
				callee = v.resolveInvokeQuiet(dummy, cc)
			} else {
				callee = cc.StaticCallee()
			}
			if callee == nil {
				continue
			}
			for _, g := range v.closureOf(callee) {
				for _, gb := range g.Blocks {
					for _, gi := range gb.Instrs {
						var gc *ssa.CallCommon
						switch y := gi.(type) {
						case *ssa.Call:
							gc = &y.Call
						case *ssa.Defer:
							gc = &y.Call
						}
						if gc != nil && isEmit(calleeNameStatic(gc)) {
							hits = append(hits, fmt.Sprintf("%s calls %s inside a loop over a map, which emits an event in %s: the order of the transaction's events follows the map iteration order", f.Name(), callee.Name(), g.Name()))
						}
					}
				}
			}
		}
	}
	sort.Strings(hits)
	return dedupe(hits)
}

func (v *Verifier) mapRangeCovered(f *ssa.Function) bool {
	ct := v.specs.Contracts[funcKey(f)]
	if ct == nil || ct.Trusted {
		return false
	}
	for _, ls := range ct.Loops {
		for _, c := range append(append([]*Clause{}, ls.Inv...), ls.Exit...) {
			for _, t := range c.Tags {
				if strings.HasPrefix(t, "C01") {
					return true
				}
			}
		}
	}
	return false
}

// ---------------------------------------------------------------------------------------------------------------------
// C18: genesis footprint. For every module: each KV key prefix (constant passed to types.KeyPrefix) that some function of the
// module writes under must be read by the closure of ExportGenesis and written by the closure of InitGenesis; otherwise state
// reachable by transactions is lost in an export/import round trip. A frame obligation over the SSA of the module, decided by
// scanning; no SMT involved.

// keyPrefixConsts: string constants passed to <module>/types.KeyPrefix in f (resolved through package-level constants).
func keyPrefixConsts(f *ssa.Function) []string {
	var out []string
	for _, b := range f.Blocks {
		for _, ins := range b.Instrs {
			c, ok := ins.(*ssa.Call)
			if !ok {
				continue
			}
			callee := c.Call.StaticCallee()
			if callee == nil || callee.Name() != "KeyPrefix" || len(c.Call.Args) != 1 {
				continue
			}
			if k, ok := c.Call.Args[0].(*ssa.Const); ok && k.Value != nil {
				out = append(out, constantString(k))
			}
		}
	}
	return out
}

// writesKV: f performs a KVStore Set or Delete itself.
func writesKV(f *ssa.Function) bool {
	for _, b := range f.Blocks {
		for _, ins := range b.Instrs {
			c, ok := ins.(*ssa.Call)
			if !ok {
				continue
			}
			n := ""
			if c.Call.IsInvoke() {
				n = c.Call.Method.Name()
				if (n == "Set" || n == "Delete") && strings.Contains(c.Call.Value.Type().String(), "KVStore") {
					return true
				}
			} else if callee := c.Call.StaticCallee(); callee != nil {
				n = callee.String()
				if strings.HasPrefix(n, "(github.com/cosmos/cosmos-sdk/store/prefix.Store).Set") || strings.HasPrefix(n, "(github.com/cosmos/cosmos-sdk/store/prefix.Store).Delete") {
					return true
				}
			}
		}
	}
	return false
}

func (v *Verifier) genesisObligations() []detResult {
	var out []detResult
	for _, m := range repoModules {
		mp := v.ssaPkgs[repoMod+"/x/"+m]
		kp := v.ssaPkgs[repoMod+"/x/"+m+"/keeper"]
		if mp == nil || kp == nil {
			continue
		}
		written := map[string]string{}
		for _, mem := range kp.Members {
			var fns []*ssa.Function
			switch x := mem.(type) {
			case *ssa.Function:
				fns = append(fns, x)
			case *ssa.Type:
				for _, T := range []types.Type{x.Type(), types.NewPointer(x.Type())} {
					ms := v.prog.MethodSets.MethodSet(T)
					for i := 0; i < ms.Len(); i++ {
						if fn := v.prog.MethodValue(ms.At(i)); fn != nil && fn.Pkg == kp && fn.Synthetic == "" {
							fns = append(fns, fn)
						}
					}
				}
			}
			for _, f := range fns {
				if f.Blocks == nil || !writesKV(f) {
					continue
				}
				for _, c := range keyPrefixConsts(f) {
					if _, ok := written[c]; !ok {
						written[c] = f.Name()
					}
				}
			}
		}
		seenIn := func(root *ssa.Function, needWrite bool) map[string]bool {
			got := map[string]bool{}
			if root == nil {
				return got
			}
			for _, f := range v.closureOf(root) {
				if needWrite && !writesKV(f) {
					continue
				}
				for _, c := range keyPrefixConsts(f) {
					got[c] = true
				}
			}
			return got
		}
		exp := seenIn(mp.Func("ExportGenesis"), false)
		ini := seenIn(mp.Func("InitGenesis"), true)
		var hits []string
		for _, c := range sortedKeys(written) {
			if !exp[c] {
				hits = append(hits, fmt.Sprintf("prefix %q (written by %s) is not read by ExportGenesis", c, written[c]))
			}
			if !ini[c] {
				hits = append(hits, fmt.Sprintf("prefix %q (written by %s) is not written by InitGenesis", c, written[c]))
			}
		}
		out = append(out, detResult{Name: fmt.Sprintf("gen@%s#footprint", m), OK: len(hits) == 0, Detail: fmt.Sprintf("%d prefixes written by module %s; ", len(written), m) + strings.Join(hits, "; "), Tags: []string{"C18"}})
	}
	return out
}

// storeOwned: v is (a view of) a byte slice handed out by KVStore.Get or an iterator's Key/Value; returns the producing call.
func storeOwned(v ssa.Value, seen map[ssa.Value]bool) string {
	if seen[v] {
		return ""
	}
	seen[v] = true
	switch x := v.(type) {
	case *ssa.Call:
		n := ""
		if x.Call.IsInvoke() {
			n = x.Call.Method.Name()
			t := x.Call.Value.Type().String()
			if (n == "Get" && strings.Contains(t, "KVStore")) || ((n == "Value" || n == "Key") && strings.Contains(t, "Iterator")) {
				return t + "." + n
			}
		} else if c := x.Call.StaticCallee(); c != nil {
			n = c.String()
			if strings.HasPrefix(n, "(github.com/cosmos/cosmos-sdk/store/prefix.Store).Get") {
				return n
			}
		}
	case *ssa.Slice:
		return storeOwned(x.X, seen)
	case *ssa.ChangeType:
		return storeOwned(x.X, seen)
	case *ssa.Phi:
		for _, e := range x.Edges {
			if r := storeOwned(e, seen); r != "" {
				return r
			}
		}
	}
	return ""
}
