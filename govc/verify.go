package main

// Verifier: loading, lookups, per-function verification driver.

import (
	"fmt"
	"go/constant"
	"go/types"
	"os"
	"regexp"
	"sort"
	"strings"

	"golang.org/x/tools/go/packages"
	"golang.org/x/tools/go/ssa"
	"golang.org/x/tools/go/ssa/ssautil"
)

type ghostSig struct {
	args []string
	ret  string
}

type Verifier struct {
	repo          string
	prog          *ssa.Program
	pkgs          []*packages.Package
	allPkgs       map[string]*packages.Package
	ssaPkgs       map[string]*ssa.Package
	specs         *Specs
	g             *Gen
	ghostFuns     map[string]ghostSig
	pureDone      map[string]bool
	pureDefs      []string
	callees       map[*Root]map[string]bool
	loadErrs      []string
	knownPatterns []string // obligation patterns of listed known findings: such clauses are never assumed at call sites
}

func (v *Verifier) isKnownFinding(name string) bool {
	for _, p := range v.knownPatterns {
		pat := "^" + strings.ReplaceAll(regexp.QuoteMeta(p), `\*`, ".*") + "$"
		if ok, _ := regexp.MatchString(pat, name); ok {
			return true
		}
	}
	return false
}

func NewVerifier(repo string, patterns []string) (*Verifier, error) {
	v := &Verifier{repo: repo, allPkgs: map[string]*packages.Package{}, ssaPkgs: map[string]*ssa.Package{},
		ghostFuns: map[string]ghostSig{}, pureDone: map[string]bool{}, callees: map[*Root]map[string]bool{}}
	specs, err := LoadSpecs(repo)
	if err != nil {
		return nil, err
	}
	v.specs = specs
	cfg := &packages.Config{Mode: packages.LoadAllSyntax, Dir: repo, BuildFlags: []string{"-tags=verif"},
		Env: append(os.Environ(), "GOFLAGS=-mod=mod", "GOPROXY=off", "GOSUMDB=off", "GOTOOLCHAIN=local")}
	pkgs, err := packages.Load(cfg, patterns...)
	if err != nil {
		return nil, err
	}
	for _, p := range pkgs {
		for _, e := range p.Errors {
			v.loadErrs = append(v.loadErrs, e.Error())
		}
	}
	if len(v.loadErrs) > 0 {
		return nil, fmt.Errorf("package load errors: %s", strings.Join(v.loadErrs, "; "))
	}
	v.pkgs = pkgs
	packages.Visit(pkgs, nil, func(p *packages.Package) { v.allPkgs[p.PkgPath] = p })
	prog, _ := ssautil.AllPackages(pkgs, ssa.InstantiateGenerics|ssa.GlobalDebug)
	// build only repository packages (dependencies are handled by contracts)
	for _, sp := range prog.AllPackages() {
		if isRepoPath(sp.Pkg.Path()) {
			sp.Build()
			v.ssaPkgs[sp.Pkg.Path()] = sp
		}
	}
	v.prog = prog
	v.g = NewGen()
	registerGhosts(v)
	return v, nil
}

func (v *Verifier) lookupType(full string) types.Type {
	i := strings.LastIndex(full, ".")
	if i < 0 {
		return nil
	}
	p := v.allPkgs[full[:i]]
	if p == nil || p.Types == nil {
		return nil
	}
	o := p.Types.Scope().Lookup(full[i+1:])
	if o == nil {
		return nil
	}
	return o.Type()
}

var shortTypeAlias = map[string]string{
	"Coin": "github.com/cosmos/cosmos-sdk/types.Coin", "DecCoin": "github.com/cosmos/cosmos-sdk/types.DecCoin",
}

// lookupTypeShort resolves "Node", "node.Node", "nodetypes.Node" style names against repo type packages.
func (v *Verifier) lookupTypeShort(name string) types.Type {
	if f, ok := shortTypeAlias[name]; ok {
		return v.lookupType(f)
	}
	mod := ""
	if i := strings.Index(name, "_"); i > 0 {
		mod, name = name[:i], name[i+1:]
	}
	var found types.Type
	var paths []string
	for p := range v.allPkgs {
		paths = append(paths, p)
	}
	sort.Strings(paths)
	for _, p := range paths {
		if !strings.HasPrefix(p, repoMod+"/x/") || !strings.HasSuffix(p, "/types") {
			continue
		}
		if mod != "" && !strings.HasSuffix(p, "/"+mod+"/types") {
			continue
		}
		if o := v.allPkgs[p].Types.Scope().Lookup(name); o != nil {
			if _, ok := o.(*types.TypeName); ok {
				if found != nil {
					return nil // ambiguous
				}
				found = o.Type()
			}
		}
	}
	return found
}

// lookupConst resolves package-level constants by name: first in the function's package, then in all repo type packages.
func (v *Verifier) lookupConst(fn *ssa.Function, name string) *SV {
	try := func(p *types.Package) *SV {
		if p == nil {
			return nil
		}
		o := p.Scope().Lookup(name)
		c, ok := o.(*types.Const)
		if !ok {
			return nil
		}
		switch c.Val().Kind() {
		case constant.Int:
			s := c.Val().ExactString()
			if strings.HasPrefix(s, "-") {
				s = "(- " + s[1:] + ")"
			}
			return &SV{t: s, sort: "Int"}
		case constant.String:
			return &SV{t: v.g.StrLit(constant.StringVal(c.Val())), sort: "Str"}
		case constant.Bool:
			return &SV{t: c.Val().String(), sort: "Bool"}
		}
		return nil
	}
	if fn != nil && fn.Pkg != nil {
		if r := try(fn.Pkg.Pkg); r != nil {
			return r
		}
		for _, imp := range fn.Pkg.Pkg.Imports() {
			if isRepoPath(imp.Path()) {
				if r := try(imp); r != nil {
					return r
				}
			}
		}
	}
	var paths []string
	for p := range v.allPkgs {
		if strings.HasPrefix(p, repoMod+"/x/") {
			paths = append(paths, p)
		}
	}
	sort.Strings(paths)
	for _, p := range paths {
		if r := try(v.allPkgs[p].Types); r != nil {
			return r
		}
	}
	return nil
}

// keyFun declares the uninterpreted injective key constructor for a repo key function ("pkgshort.Name" or "Name").
func (v *Verifier) keyFun(g *Gen, name string) string {
	fn := "key_" + mangle(name)
	return fn
}

func (v *Verifier) declareKeyFun(g *Gen, fn string, argSorts []string) {
	bs := g.SortOf(types.NewSlice(types.Typ[types.Uint8]))
	if g.funSeen[fn] {
		return
	}
	g.DeclFun(fn, argSorts, bs)
	if len(argSorts) == 0 {
		g.Axiom("key.nonnil."+fn, fmt.Sprintf("(not (%s_nil %s))", bs, fn))
		return
	}
	var b1, b2, a1, a2, eqs []string
	for i, s := range argSorts {
		b1 = append(b1, fmt.Sprintf("(x%d %s)", i, s))
		b2 = append(b2, fmt.Sprintf("(y%d %s)", i, s))
		a1 = append(a1, fmt.Sprintf("x%d", i))
		a2 = append(a2, fmt.Sprintf("y%d", i))
		eqs = append(eqs, fmt.Sprintf("(= x%d y%d)", i, i))
	}
	// injectivity through inverse functions (cheaper for solvers than pairwise quantification)
	for i, s := range argSorts {
		inv := fmt.Sprintf("%s_inv%d", fn, i)
		g.DeclFun(inv, []string{bs}, s)
		g.Axiom(fmt.Sprintf("key.inj.%s.%d", fn, i), fmt.Sprintf("(forall (%s) (! (and (= (%s (%s %s)) x%d) (not (%s_nil (%s %s)))) :pattern ((%s %s))))",
			strings.Join(b1, " "), inv, fn, strings.Join(a1, " "), i, bs, fn, strings.Join(a1, " "), fn, strings.Join(a1, " ")))
	}
	_ = b2
	_ = a2
	_ = eqs
}

func (v *Verifier) declarePure(e *Enc, pf *PureFun) string {
	name := "pf_" + pf.Name
	if v.pureDone[pf.Name] {
		return name
	}
	v.pureDone[pf.Name] = true
	env := &SpecEnv{e: e, vars: map[string]SV{}, errCtx: "pure " + pf.Name, noLocals: true}
	var binds []string
	for _, p := range pf.Params {
		s, gt := env.quantSort(p[1])
		env.vars[p[0]] = SV{t: p[0] + "!p", sort: s, gt: gt}
		binds = append(binds, fmt.Sprintf("(%s!p %s)", p[0], s))
	}
	rs, _ := env.quantSort(pf.Ret)
	body := env.expr(pf.Body.E)
	v.pureDefs = append(v.pureDefs, fmt.Sprintf("(define-fun %s (%s) %s %s)", name, strings.Join(binds, " "), rs, body.t))
	return name
}

var ifaceBinding = map[string]string{
	"NodeKeeper": repoMod + "/x/node/keeper.Keeper", "OrderKeeper": repoMod + "/x/order/keeper.Keeper",
	"ModelKeeper": repoMod + "/x/model/keeper.Keeper", "MarketKeeper": repoMod + "/x/market/keeper.Keeper",
	"DidKeeper": repoMod + "/x/did/keeper.Keeper", "SaoKeeper": repoMod + "/x/sao/keeper.Keeper",
}

// resolveInvoke maps an interface method call on one of the module keeper interfaces to the concrete keeper method
// wired in app/app.go (assumption: wiring; checked: the concrete type implements the interface).
func (v *Verifier) resolveInvoke(e *Enc, c *ssa.CallCommon) *ssa.Function {
	n := namedOf(c.Value.Type())
	if n == nil || n.Obj().Pkg() == nil || !isRepoPath(n.Obj().Pkg().Path()) {
		return nil
	}
	target, ok := ifaceBinding[n.Obj().Name()]
	if !ok {
		return nil
	}
	ct := v.lookupType(target)
	if ct == nil {
		e.r.errorf("interface binding: type %s not loaded (needed for %s.%s)", target, n.Obj().Name(), c.Method.Name())
		return nil
	}
	iface, _ := n.Underlying().(*types.Interface)
	if iface != nil && !types.Implements(ct, iface) && !types.Implements(types.NewPointer(ct), iface) {
		e.r.errorf("interface binding: %s does not implement %s", target, n.Obj().Name())
		return nil
	}
	e.g().usedExt["wiring:"+n.Obj().Pkg().Path()+"."+n.Obj().Name()+"->"+target] = true
	fn := v.prog.LookupMethod(ct, c.Method.Pkg(), c.Method.Name())
	if fn == nil {
		fn = v.prog.LookupMethod(types.NewPointer(ct), c.Method.Pkg(), c.Method.Name())
	}
	return fn
}

func (v *Verifier) noteCallee(r *Root, ct *Contract) {
	if v.callees[r] == nil {
		v.callees[r] = map[string]bool{}
	}
	v.callees[r][ct.Key] = true
}

func (v *Verifier) findFunc(ct *Contract) *ssa.Function {
	sp := v.ssaPkgs[ct.Pkg]
	if sp == nil {
		return nil
	}
	if ct.Recv == "" {
		return sp.Func(ct.Func)
	}
	o := sp.Pkg.Scope().Lookup(ct.Recv)
	if o == nil {
		return nil
	}
	t := o.Type()
	if fn := v.prog.LookupMethod(t, sp.Pkg, ct.Func); fn != nil {
		return fn
	}
	return v.prog.LookupMethod(types.NewPointer(t), sp.Pkg, ct.Func)
}

type FuncResult struct {
	Contract *Contract
	Fn       *ssa.Function
	Root     *Root
	Errs     []string
}

func (v *Verifier) newRoot(fn *ssa.Function, ct *Contract, discover bool) (*Root, *Enc) {
	r := &Root{g: v.g, v: v, fn: fn, ct: ct, init: map[string]string{}, stSort: map[string]string{}, writeLog: map[string]map[int]bool{},
		modsets: map[int]map[string]bool{}, discover: discover, siteCnt: map[string]int{}, locals: map[string]bool{}, curBlock: -1}
	r.fnShort = pkgShort(ct.Pkg) + "." + ct.shortName()
	e := &Enc{r: r, fn: fn, ct: ct, vals: map[ssa.Value]string{}, tuples: map[ssa.Value][]string{}, locs: map[ssa.Value]*Loc{},
		funcs: map[ssa.Value]string{}, reach: map[*ssa.BasicBlock]string{}, stOut: map[*ssa.BasicBlock]map[string]string{},
		guard: "true", depth: 0, pfx: "", params: map[string]string{}, entrySt: map[string]string{}}
	return r, e
}

// VerifyFunc generates all obligations of one function under contract.
func (v *Verifier) VerifyFunc(ct *Contract) *FuncResult {
	fn := v.findFunc(ct)
	res := &FuncResult{Contract: ct, Fn: fn}
	if fn == nil {
		res.Errs = append(res.Errs, "lost contract target: function "+ct.Key+" not found in /repo")
		return res
	}
	if ct.Trusted {
		return res
	}
	// pass 1: discovery of loop modsets
	r1, e1 := v.newRoot(fn, ct, true)
	v.setupEntry(r1, e1)
	e1.encodeBody()
	if r1.callsModAll {
		// a callee with 'modifies *' changes every persistent state the function mentions anywhere: repeat the discovery with
		// all state names known from the start, so that loops containing such a call get complete modsets
		delete(closureTab, r1)
		r0 := r1
		r1, e1 = v.newRoot(fn, ct, true)
		for k, s := range r0.stSort {
			r1.stSort[k] = s
		}
		v.setupEntry(r1, e1)
		e1.encodeBody()
	}
	modsets := map[int]map[string]bool{}
	for _, li := range e1.loops {
		ms := map[string]bool{}
		for name, blocks := range r1.writeLog {
			for bi := range blocks {
				for b := range li.body {
					if b.Index == bi {
						ms[name] = true
					}
				}
			}
		}
		modsets[li.head.Index] = ms
	}
	delete(closureTab, r1)
	// pass 2
	r, e := v.newRoot(fn, ct, false)
	r.modsets = modsets
	for k, s := range r1.stSort {
		r.stSort[k] = s
	}
	v.setupEntry(r, e)
	// vacuity: preconditions satisfiable
	r.addObl(&Obligation{Name: r.fnShort + "#vacuity@requires", Kind: "vacuity", Goal: "true", ExpSat: true, Src: "requires and type invariants are satisfiable"})
	e.encodeBody()
	v.finish(r, e)
	res.Root = r
	res.Errs = r.errs
	delete(closureTab, r)
	return res
}

func (v *Verifier) setupEntry(r *Root, e *Enc) {
	fn, ct := e.fn, e.ct
	g := v.g
	e.ensureState("nextRef", "Int")
	nr0 := r.initState("nextRef")
	r.assume(fmt.Sprintf("(> %s 0)", nr0))
	vars := map[string]SV{}
	for _, p := range fn.Params {
		s := g.SortOf(p.Type())
		c := r.decl("p_"+mangle(p.Name()), s)
		e.vals[p] = c
		e.params[p.Name()] = c
		e.typeInv(c, p.Type(), 0)
		if _, ok := types.Unalias(p.Type()).Underlying().(*types.Pointer); ok {
			r.assume(fmt.Sprintf("(and (<= 0 %s) (< %s %s))", c, c, nr0))
		}
		vars[p.Name()] = SV{t: c, sort: s, gt: p.Type()}
		r.inputs = append(r.inputs, ModelInput{Name: p.Name(), Term: c, Sort: s})
	}
	e.st = map[string]string{}
	env := &SpecEnv{e: e, vars: vars, errCtx: ct.Key + " requires", noLocals: true}
	for _, rq := range ct.Requires {
		r.assume(env.boolExpr(rq.E))
	}
	// axioms: defining equations of ghost functions (e.g. recursive sums); assumed globally
	for _, ax := range v.specs.Axioms {
		axEnv := &SpecEnv{e: e, vars: map[string]SV{}, errCtx: "axiom " + ax.Name, noLocals: true}
		r.assume(axEnv.boolExpr(ax.Body.E))
	}
	if ct.Accessor {
		r.nopanic = true
	}
	if len(ct.NoPanic) > 0 {
		r.nopanic = true
		for _, np := range ct.NoPanic {
			if np.E != nil {
				r.assume(env.boolExpr(np.E))
			}
		}
	}
	e.entrySt = map[string]string{}
}

func (v *Verifier) finish(r *Root, e *Enc) {
	r.curBlock = -1
	// a call-site assertion that matched no call of the function itself generates no obligation: that is a hole, not a pass
	// (calls made inside inlined callees do not count; a deleted call ends up here too)
	if r.ct != nil && !r.discover {
		for _, ca := range r.ct.CallAsserts {
			if r.siteCnt["matched:"+ca.C.Src] == 0 {
				r.errorf("call-site assertion [%s] at %s matches no call in %s", ca.C.Name(), ca.Callee, r.fn.Name())
			}
		}
	}
	ct := e.ct
	fn := e.fn
	g := v.g
	if len(e.rets) == 0 {
		r.errorf("function %s has no normal return", ct.Key)
		return
	}
	var conds []string
	var sts []map[string]string
	for _, rt := range e.rets {
		conds = append(conds, rt.reach)
		sts = append(sts, rt.st)
	}
	final := e.mergeStates(conds, sts)
	retReach := r.def("ret_reach", "Bool", orTerms(conds))
	vars := map[string]SV{}
	for _, p := range fn.Params {
		vars[p.Name()] = SV{t: e.params[p.Name()], sort: g.SortOf(p.Type()), gt: p.Type()}
	}
	sig := fn.Signature
	for i := 0; i < sig.Results().Len(); i++ {
		var vs []string
		for _, rt := range e.rets {
			vs = append(vs, rt.vals[i])
		}
		rt := sig.Results().At(i).Type()
		t := r.def(fmt.Sprintf("result%d", i), g.SortOf(rt), iteChain(conds, vs))
		nm := ""
		if i < len(ct.Results) {
			nm = ct.Results[i]
		} else if sig.Results().At(i).Name() != "" {
			nm = sig.Results().At(i).Name()
		}
		if nm != "" {
			vars[nm] = SV{t: t, sort: g.SortOf(rt), gt: rt}
		}
	}
	e.st = final
	env := &SpecEnv{e: e, vars: vars, cur: final, old: map[string]string{}, errCtx: ct.Key + " ensures", noLocals: true}
	ensList := ct.Ensures
	if debugSplit {
		// debugging aid (-split): one obligation per top-level conjunct of each postcondition
		ensList = nil
		for _, en := range ct.Ensures {
			parts := splitConj(en.E)
			for pi, pe := range parts {
				c := *en
				c.E = pe
				if len(parts) > 1 {
					c.Tags = []string{fmt.Sprintf("%s.c%d", en.Name(), pi+1)}
				}
				ensList = append(ensList, &c)
			}
		}
	}
	for i, en := range ensList {
		name := fmt.Sprintf("%s#ensures@%s", r.fnShort, en.Name())
		if en.Name() == "" {
			name = fmt.Sprintf("%s#ensures@wf%d", r.fnShort, i+1)
		}
		if len(e.rets) > 1 && len(e.rets) <= 48 {
			// one obligation per return site (in control-flow order): smaller goals than the ite-merged result
			for k, rt := range e.rets {
				rvars := map[string]SV{}
				for n, v := range vars {
					rvars[n] = v
				}
				for ri := 0; ri < sig.Results().Len(); ri++ {
					nm := ""
					if ri < len(ct.Results) {
						nm = ct.Results[ri]
					} else if sig.Results().At(ri).Name() != "" {
						nm = sig.Results().At(ri).Name()
					}
					if nm != "" {
						rtT := sig.Results().At(ri).Type()
						rvars[nm] = SV{t: rt.vals[ri], sort: g.SortOf(rtT), gt: rtT}
					}
				}
				e.st = rt.st
				renv := &SpecEnv{e: e, vars: rvars, cur: rt.st, old: map[string]string{}, errCtx: ct.Key + " ensures", noLocals: true}
				t := renv.boolExpr(en.E)
				if e.depth == 0 {
					r.curBlock = rt.blk // the obligation only depends on blocks that reach this return
				}
				r.addObl(&Obligation{Name: fmt.Sprintf("%s.ret%d", name, k+1), Kind: "ensures", Tags: en.Tags, Goal: fmt.Sprintf("(=> %s %s)", rt.reach, t), Src: en.Src + " [return at " + rt.pos + "]"})
				r.curBlock = -1
			}
			e.st = final
			continue
		}
		t := env.boolExpr(en.E)
		r.addObl(&Obligation{Name: name, Kind: "ensures", Tags: en.Tags, Goal: fmt.Sprintf("(=> %s %s)", retReach, t), Src: en.Src})
	}
	// frame
	if !ct.ModAll {
		oldEnv := &SpecEnv{e: e, vars: vars, cur: map[string]string{}, old: map[string]string{}, errCtx: ct.Key + " modifies", noLocals: true}
		items := e.resolveModifies(ct, oldEnv)
		by := map[string][]modItem{}
		for _, it := range items {
			by[it.state] = append(by[it.state], it)
		}
		for _, name := range sortedKeys(final) {
			if strings.HasPrefix(name, "loc:") || strings.HasPrefix(name, "map:") || strings.HasPrefix(name, "visited:") ||
				strings.HasPrefix(name, "iter:") || name == "nextRef" || strings.HasPrefix(name, "ghost:") {
				continue
			}
			if strings.HasPrefix(name, "heap:[") {
				continue // literal/varargs construction buffers: arrays are never reachable from parameters here
			}
			init := r.initState(name)
			fin := final[name]
			if fin == init {
				continue
			}
			whole := false
			for _, it := range by[name] {
				if it.key == "" {
					whole = true
				}
			}
			if whole {
				continue
			}
			var goal string
			if strings.HasPrefix(name, "heap:") {
				var neqs []string
				for _, it := range by[name] {
					neqs = append(neqs, fmt.Sprintf("(not (= r!m %s))", it.key))
				}
				goal = fmt.Sprintf("(forall ((r!m Int)) (=> (and (< r!m %s) %s) (= (select %s r!m) (select %s r!m))))", r.initState("nextRef"), andTerms(neqs), fin, init)
			} else {
				chain := init
				for _, it := range by[name] {
					chain = fmt.Sprintf("(store %s %s (select %s %s))", chain, it.key, fin, it.key)
				}
				goal = fmt.Sprintf("(= %s %s)", fin, chain)
			}
			r.addObl(&Obligation{Name: fmt.Sprintf("%s#frame@%s", r.fnShort, mangle(name)), Kind: "frame",
				Goal: fmt.Sprintf("(=> %s %s)", retReach, goal), Src: "only the listed parts of " + name + " are modified"})
		}
	}
	if ct.Functional {
		for _, name := range sortedKeys(r.stateReads) {
			if strings.HasPrefix(name, "kv:") || name == "bank" || strings.HasPrefix(name, "glob:") || strings.HasPrefix(name, "param") {
				if strings.HasPrefix(name, "glob:") && r.g.errGlobals[name] != 0 {
					continue
				}
				r.errorf("functional contract violated: %s reads chain state %s", ct.Key, name)
			}
		}
	}
	if len(e.rets) > 1 {
		for i, rt := range e.rets {
			if !rt.okRet {
				continue // defensive error returns may be dead code; only success returns must be reachable
			}
			r.addObl(&Obligation{Name: fmt.Sprintf("%s#cover@return.%d", r.fnShort, i+1), Kind: "cover", Goal: rt.reach, ExpSat: true,
				Src: fmt.Sprintf("return site %d (in control-flow order) is reachable under all assumptions: no operation before it always panics", i+1)})
		}
	}
	r.addObl(&Obligation{Name: r.fnShort + "#cover@return", Kind: "cover", Goal: retReach, ExpSat: true, Src: "some return is reachable under all assumptions"})
}

// isTrustedRepoFunc: repo functions handled by rules instead of contracts/inlining (key constructors etc.)
func (v *Verifier) isTrustedRepoFunc(fn *ssa.Function) bool {
	_, ok := v.repoRule(fn)
	return ok
}

// lookupGlobalVar resolves a package-level variable by short name in the function's package or its repo imports.
func (v *Verifier) lookupGlobalVar(fn *ssa.Function, name string) string {
	try := func(p *types.Package) string {
		if p == nil {
			return ""
		}
		if o, ok := p.Scope().Lookup(name).(*types.Var); ok && o != nil {
			return p.Path() + "." + name
		}
		return ""
	}
	if fn != nil && fn.Pkg != nil {
		if r := try(fn.Pkg.Pkg); r != "" {
			return r
		}
		for _, imp := range fn.Pkg.Pkg.Imports() {
			if isRepoPath(imp.Path()) {
				if r := try(imp); r != "" {
					return r
				}
			}
		}
	}
	return ""
}

var debugSplit bool

// splitConj: A ==> (B1 && B2) becomes [A ==> B1, A ==> B2]; used only by the -split debugging flag.
func splitConj(e *SExpr) []*SExpr {
	if e.Op == "bin" && e.S == "&&" {
		return append(splitConj(e.Args[0]), splitConj(e.Args[1])...)
	}
	if e.Op == "bin" && e.S == "==>" {
		var out []*SExpr
		for _, r := range splitConj(e.Args[1]) {
			out = append(out, &SExpr{Op: "bin", S: "==>", Args: []*SExpr{e.Args[0], r}})
		}
		return out
	}
	return []*SExpr{e}
}
