package main

// Function encoder: go/ssa -> passive-form SMT with cut loops, contracts at calls, obligations.

import (
	"crypto/sha1"
	"fmt"
	"go/token"
	"go/types"
	"sort"
	"strings"

	"golang.org/x/tools/go/ssa"
)

type Item struct {
	Kind string // "decl", "def", "assume", "comment"
	Text string
	Blk  int // root-level basic block during whose encoding the item was produced (-1: entry / exit of the function)
}

type Obligation struct {
	Name         string
	Kind         string // ensures, frame, pre, inv.entry, inv.preserve, term, safe, cover, lemma, vacuity
	Tags         []string
	Fn           string
	Goal         string // SMT Bool term that must be valid given items[:N]
	Blk          int    // root-level block in which the obligation arises (-1: at function exit, sees every block)
	N            int    // number of items visible
	ExpSat       bool   // cover/vacuity: expected satisfiable (goal is asserted positively)
	Src          string // spec source text / description
	Root         *Root
	NoModel      bool
	Static       string // "proved"/"failed": decided without a solver (frame obligations over the SSA graph)
	StaticDetail string
}

// Root holds everything shared by the encoders of one verified function (root + inlined callees).
type Root struct {
	g          *Gen
	v          *Verifier
	fn         *ssa.Function
	ct         *Contract
	items      []Item
	obls       []*Obligation
	uniq       int
	init       map[string]string // state var -> initial const
	stSort     map[string]string // state var -> sort
	writeLog   map[string]map[int]bool
	modsets    map[int]map[string]bool // loop head block index -> state vars written in loop (from discovery pass)
	discover   bool
	abstracted []string // loop-carrying closures replaced by their write set (see abstractClosureCall)
	// callsModAll: the function calls a contract with 'modifies *' (see havocModifies)
	callsModAll bool
	nopanic     bool
	allocs      []string // refs allocated by this activation (not in loops)
	errs        []string
	siteCnt     map[string]int
	curBlock    int // current root-level block index (for write logging)
	cones       map[int]map[int]bool
	fnShort     string
	inputs      []ModelInput
	locals      map[string]bool
	seenAssume  map[string]bool
	stateReads  map[string]bool
	slice       *sliceCache
}

type ModelInput struct {
	Name string // go-level name (param)
	Term string
	Sort string
}

func (r *Root) fresh(prefix string) string {
	r.uniq++
	return fmt.Sprintf("%s!%d", prefix, r.uniq)
}

func (r *Root) decl(name, sort string) string {
	r.items = append(r.items, Item{"decl", fmt.Sprintf("(declare-const %s %s)", name, sort), r.curBlock})
	return name
}

func (r *Root) assume(f string) {
	if f == "true" {
		return
	}
	if r.seenAssume == nil {
		r.seenAssume = map[string]bool{}
	}
	if len(f) < 400 {
		k := fmt.Sprintf("%d|%s", r.curBlock, f)
		if r.seenAssume[k] {
			return
		}
		r.seenAssume[k] = true
	}
	r.items = append(r.items, Item{"assume", "(assert " + f + ")", r.curBlock})
}

func (r *Root) comment(s string) {
	r.items = append(r.items, Item{"comment", "; " + strings.ReplaceAll(s, "\n", " "), r.curBlock})
}

func isAtom(t string) bool {
	return !strings.ContainsAny(t, " (")
}

// def introduces a named definition for a term (keeps formulas small).
func (r *Root) def(prefix, sort, term string) string {
	if isAtom(term) {
		return term
	}
	n := r.fresh(prefix)
	r.items = append(r.items, Item{"def", fmt.Sprintf("(define-fun %s () %s %s)", n, sort, term), r.curBlock})
	return n
}

func (r *Root) errorf(format string, a ...interface{}) {
	msg := fmt.Sprintf(format, a...)
	for _, e := range r.errs {
		if e == msg {
			return
		}
	}
	r.errs = append(r.errs, msg)
}

func (r *Root) initState(name string) string {
	if c, ok := r.init[name]; ok {
		return c
	}
	s, ok := r.stSort[name]
	if !ok {
		panic("state var without sort: " + name)
	}
	c := "S0_" + mangle(name)
	// initial constants are declared at the very beginning (they are inputs)
	r.items = append([]Item{{"decl", fmt.Sprintf("(declare-const %s %s)", c, s), -1}}, r.items...)
	for _, o := range r.obls {
		o.N++
	}
	r.init[name] = c
	return c
}

func (r *Root) addObl(o *Obligation) {
	if r.discover {
		return
	}
	o.N = len(r.items)
	o.Blk = r.curBlock
	o.Root = r
	o.Fn = r.fnShort
	base := o.Name
	r.siteCnt[base]++
	if n := r.siteCnt[base]; n > 1 {
		o.Name = fmt.Sprintf("%s#%d", base, n)
	}
	r.obls = append(r.obls, o)
}

// Loc is a symbolic location (pointer value known at generation time).
type Loc struct {
	Kind string     // "local" (state var holding the value), "heap" (ref into per-type heap), "global", "elem" (element of slice value: read-only)
	Name string     // state var name for local/global ; heap state var name for heap
	Base string     // ref term (heap) / slice term (elem)
	T    types.Type // type of the root object
	Path []PathEl
}

type PathEl struct {
	Field int    // field index, or -1 for array index
	Index string // index term
}

type Enc struct {
	r           *Root
	fn          *ssa.Function
	ct          *Contract // contract of fn if root
	vals        map[ssa.Value]string
	tuples      map[ssa.Value][]string
	locs        map[ssa.Value]*Loc
	funcs       map[ssa.Value]string // function-valued SSA values resolved to names
	reach       map[*ssa.BasicBlock]string
	stOut       map[*ssa.BasicBlock]map[string]string
	st          map[string]string // current state within block being encoded
	guard       string            // reach of call site (for inlined), "true" for root
	depth       int
	pfx         string
	cur         *ssa.BasicBlock
	loops       map[*ssa.BasicBlock]*loopInfo // by head
	params      map[string]string
	entrySt     map[string]string
	rets        []retInfo
	iters       map[ssa.Value]*iterInfo
	ranges      map[ssa.Value]*rangeInfo
	dbg         map[string][]ssa.Value // source variable name -> values (from DebugRef)
	panicBlocks map[*ssa.BasicBlock]bool
}

type retInfo struct {
	okRet bool // success return: last result is the constant nil error (or the function has no error result)
	pos   string
	blk   int
	reach string
	vals  []string
	st    map[string]string
}

type loopInfo struct {
	head         *ssa.BasicBlock
	body         map[*ssa.BasicBlock]bool
	name         string // L1, L2...
	spec         *LoopSpec
	headSt       map[string]string
	autoInv      []autoInv
	decAtHead    string
	entryNextRef string
	entrySt      map[string]string
}

func copyState(m map[string]string) map[string]string {
	n := make(map[string]string, len(m))
	for k, v := range m {
		n[k] = v
	}
	return n
}

func (e *Enc) g() *Gen { return e.r.g }

func (e *Enc) getState(name string) string {
	if e.r.stateReads == nil {
		e.r.stateReads = map[string]bool{}
	}
	e.r.stateReads[name] = true
	if t, ok := e.st[name]; ok {
		return t
	}
	return e.r.initState(name)
}

func (e *Enc) setState(name, sortName, term string) {
	if _, ok := e.r.stSort[name]; !ok {
		e.r.stSort[name] = sortName
	}
	if e.r.writeLog[name] == nil {
		e.r.writeLog[name] = map[int]bool{}
	}
	e.r.writeLog[name][e.r.curBlock] = true
	e.st[name] = e.r.def("st_"+mangle(name), e.r.stSort[name], term)
}

func (e *Enc) ensureState(name, sortName string) {
	if _, ok := e.r.stSort[name]; !ok {
		e.r.stSort[name] = sortName
	}
}

func heapName(t types.Type) string { return "heap:" + typeFullName(types.Unalias(t)) }

func (e *Enc) heapFor(t types.Type) string {
	n := heapName(t)
	e.ensureState(n, fmt.Sprintf("(Array Int %s)", e.g().SortOf(t)))
	return n
}

// ---------------------------------------------------------------------------------------------

func intBasic(t types.Type) *types.Basic {
	if b, ok := types.Unalias(t).Underlying().(*types.Basic); ok && isIntKind(b) {
		return b
	}
	return nil
}

// assumeTyped: a typing fact about a value computed at the current point. It is guarded by the reachability of the current
// block: the same term may be ill-typed on paths that do not compute it (e.g. the length of s[1:] where len(s) == 0), and an
// unguarded fact would make those paths contradictory (vacuously verified).
func (e *Enc) assumeTyped(f string) {
	if e.cur != nil {
		if rc, ok := e.reach[e.cur]; ok && rc != "" && rc != "true" {
			e.r.assume(fmt.Sprintf("(=> %s %s)", rc, f))
			return
		}
	}
	e.r.assume(f)
}

func (e *Enc) rangeAssume(term string, t types.Type) {
	if b := intBasic(t); b != nil {
		if _, ok := specialSort(typeFullName(types.Unalias(t))); ok {
			return
		}
		lo, hi := intRange(b)
		if lo != "" {
			e.assumeTyped(fmt.Sprintf("(and (<= %s %s) (<= %s %s))", lo, term, term, hi))
		}
	}
}

// typeInv assumes the machine ranges of all integer fields reachable in a value (one level of struct nesting, no arrays).
func (e *Enc) typeInv(term string, t types.Type, depth int) {
	t = types.Unalias(t)
	if b := intBasic(t); b != nil {
		e.rangeAssume(term, t)
		return
	}
	if depth > 3 {
		return
	}
	if n, ok := t.(*types.Named); ok {
		if _, sp := specialSort(typeFullName(n)); sp {
			return
		}
	}
	if st, ok := t.Underlying().(*types.Struct); ok {
		s := e.g().SortOf(t)
		if e.g().structOf[s] == nil {
			return
		}
		for i := 0; i < st.NumFields(); i++ {
			e.typeInv(e.g().FieldSel(s, st, i, term), st.Field(i).Type(), depth+1)
		}
		return
	}
	if _, ok := t.Underlying().(*types.Slice); ok {
		s := e.g().SortOf(t)
		e.assumeTyped(fmt.Sprintf("(and (>= (%s_len %s) 0) (<= (%s_len %s) 4611686018427387904))", s, term, s, term))
		e.assumeTyped(fmt.Sprintf("(=> (%s_nil %s) (= (%s_len %s) 0))", s, term, s, term))
		// element ranges for integer slices
		if sl, ok := t.Underlying().(*types.Slice); ok {
			if b := intBasic(sl.Elem()); b != nil {
				lo, hi := intRange(b)
				e.assumeTyped(fmt.Sprintf("(forall ((i!r Int)) (! (and (<= %s (select (%s_arr %s) i!r)) (<= (select (%s_arr %s) i!r) %s)) :pattern ((select (%s_arr %s) i!r))))", lo, s, term, s, term, hi, s, term))
			}
		}
	}
}

func (e *Enc) name(v ssa.Value) string {
	return e.pfx + v.Name()
}

// val returns the SMT term of an SSA value.
func (e *Enc) val(v ssa.Value) string {
	if t, ok := e.vals[v]; ok {
		return t
	}
	switch c := v.(type) {
	case *ssa.Const:
		return e.constTerm(c)
	case *ssa.Global:
		// address of a global; as a value only meaningful as Loc
		return "0"
	case *ssa.Function:
		return "0"
	case *ssa.Builtin:
		return "0"
	case *ssa.Parameter:
		if t, ok := e.params[c.Name()]; ok {
			return t
		}
	case *ssa.FreeVar:
		e.r.errorf("outside subset: free variable %s in %s", c.Name(), e.fn.Name())
		return e.havoc(v.Type(), "fv")
	}
	if l, ok := e.locs[v]; ok && l.Kind == "heap" && len(l.Path) == 0 {
		return l.Base
	}
	if l, ok := e.locs[v]; ok && l != nil && len(l.Path) > 0 {
		// interior pointer used as a value (compared with nil, boxed): an opaque non-nil address
		c := e.r.decl(e.r.fresh(e.pfx+"iptr"), "Int")
		e.r.assume(fmt.Sprintf("(> %s 0)", c))
		e.vals[v] = c
		return c
	}
	e.r.errorf("internal: no term for value %s (%T) in %s", v.Name(), v, e.fn.Name())
	return e.havoc(v.Type(), "unk")
}

func (e *Enc) havoc(t types.Type, pfx string) string {
	s := e.g().SortOf(t)
	n := e.r.decl(e.r.fresh(pfx), s)
	e.typeInv(n, t, 0)
	return n
}

func (e *Enc) havocSort(s string, pfx string) string {
	return e.r.decl(e.r.fresh(pfx), s)
}

func (e *Enc) constTerm(c *ssa.Const) string {
	t := types.Unalias(c.Type())
	if c.Value == nil {
		// zero / nil
		return e.g().Zero(t)
	}
	if b, ok := t.Underlying().(*types.Basic); ok {
		switch {
		case b.Info()&types.IsBoolean != 0:
			return c.Value.String()
		case isIntKind(b):
			s := c.Value.ExactString()
			if strings.HasPrefix(s, "-") {
				return "(- " + s[1:] + ")"
			}
			return s
		case b.Info()&types.IsString != 0:
			return e.g().StrLit(constantString(c))
		case b.Info()&types.IsFloat != 0:
			f := c.Float64()
			srt := e.g().SortOf(t)
			eb, sb := 11, 53
			if srt == sortF32 {
				eb, sb = 8, 24
			}
			return fmt.Sprintf("((_ to_fp %d %d) RNE %s)", eb, sb, realLit(f))
		}
	}
	return e.g().Zero(t)
}

func realLit(f float64) string {
	s := fmt.Sprintf("%.10f", f)
	if f < 0 {
		return "(- " + s[1:] + ")"
	}
	return s
}

func constantString(c *ssa.Const) string {
	s := c.Value.ExactString()
	// ExactString of a string constant is a quoted Go string
	var out string
	if _, err := fmt.Sscanf(s, "%q", &out); err == nil {
		return out
	}
	return strings.Trim(s, `"`)
}

// ---------------------------------------------------------------------------------------------
// Locations

func (e *Enc) locOf(v ssa.Value) *Loc {
	if l, ok := e.locs[v]; ok {
		return l
	}
	switch x := v.(type) {
	case *ssa.Global:
		name := "glob:" + x.Pkg.Pkg.Path() + "." + x.Name()
		el := x.Type().(*types.Pointer).Elem()
		e.ensureState(name, e.g().SortOf(el))
		return &Loc{Kind: "global", Name: name, T: el}
	}
	// generic pointer value: root heap ref
	pt, ok := types.Unalias(v.Type()).Underlying().(*types.Pointer)
	if !ok {
		e.r.errorf("internal: locOf non-pointer %s", v.Name())
		return &Loc{Kind: "heap", Name: "heap:?", Base: "0", T: v.Type()}
	}
	return &Loc{Kind: "heap", Name: e.heapFor(pt.Elem()), Base: e.val(v), T: pt.Elem()}
}

// loadPath reads the value at path inside a root value term of type t.
func (e *Enc) loadPath(term string, t types.Type, path []PathEl) (string, types.Type) {
	for _, p := range path {
		t = types.Unalias(t)
		if p.Field >= 0 {
			st := t.Underlying().(*types.Struct)
			s := e.g().SortOf(t)
			if s == sortOpq {
				t = st.Field(p.Field).Type()
				term = e.g().Zero(t)
				if e.g().SortOf(t) != sortOpq {
					term = e.havoc(t, "opqfield")
				}
				continue
			}
			term = e.g().FieldSel(s, st, p.Field, term)
			t = st.Field(p.Field).Type()
		} else {
			s := e.g().SortOf(t)
			var et types.Type
			switch u := t.Underlying().(type) {
			case *types.Array:
				et = u.Elem()
			case *types.Slice:
				et = u.Elem()
			}
			term = fmt.Sprintf("(select (%s_arr %s) %s)", s, term, p.Index)
			t = et
		}
	}
	return term, t
}

// storePath returns the root term with the value at path replaced.
func (e *Enc) storePath(term string, t types.Type, path []PathEl, val string) string {
	if len(path) == 0 {
		return val
	}
	t = types.Unalias(t)
	p := path[0]
	if p.Field >= 0 {
		st := t.Underlying().(*types.Struct)
		s := e.g().SortOf(t)
		if s == sortOpq {
			return term
		}
		inner := e.g().FieldSel(s, st, p.Field, term)
		nv := e.storePath(inner, st.Field(p.Field).Type(), path[1:], val)
		return e.g().FieldUpd(s, st, p.Field, term, nv)
	}
	s := e.g().SortOf(t)
	var et types.Type
	switch u := t.Underlying().(type) {
	case *types.Array:
		et = u.Elem()
	case *types.Slice:
		et = u.Elem()
	}
	inner := fmt.Sprintf("(select (%s_arr %s) %s)", s, term, p.Index)
	nv := e.storePath(inner, et, path[1:], val)
	return fmt.Sprintf("(mk_%s (store (%s_arr %s) %s %s) (%s_len %s) (%s_nil %s))", s, s, term, p.Index, nv, s, term, s, term)
}

func (e *Enc) load(l *Loc) (string, types.Type) {
	switch l.Kind {
	case "local", "global":
		if l.Kind == "global" {
			e.globalInit(l)
		}
		return e.loadPath(e.getState(l.Name), l.T, l.Path)
	case "heap":
		root := fmt.Sprintf("(select %s %s)", e.getState(l.Name), l.Base)
		return e.loadPath(root, l.T, l.Path)
	case "elem":
		return e.loadPath(l.Base, l.T, l.Path)
	}
	panic("bad loc kind")
}

func (e *Enc) globalInit(l *Loc) {
	// error sentinels: distinct non-nil values, never reassigned (assumption)
	if _, ok := e.st[l.Name]; ok {
		return
	}
	if _, ok := e.r.init[l.Name]; ok {
		return
	}
	c := e.r.initState(l.Name)
	if isErrorLike(l.T) {
		g := e.g()
		id, ok := g.errGlobals[l.Name]
		if !ok {
			// a fixed number per sentinel (from its name), so that the text of an obligation does not depend on the order in
			// which the process met the sentinels; distinct names collide with probability 2^-40
			h := sha1.Sum([]byte(l.Name))
			id = 1 + int(uint64(h[0])<<32|uint64(h[1])<<24|uint64(h[2])<<16|uint64(h[3])<<8|uint64(h[4]))
			for _, other := range g.errGlobals {
				if other == id {
					id++
				}
			}
			g.errGlobals[l.Name] = id
		}
		e.r.items = append([]Item{e.r.items[0], {"assume", fmt.Sprintf("(assert (= %s %d))", c, id), -1}}, e.r.items[1:]...)
		for _, o := range e.r.obls {
			o.N++
		}
	}
}

func isErrorLike(t types.Type) bool {
	t = types.Unalias(t)
	if p, ok := t.(*types.Pointer); ok {
		full := typeFullName(types.Unalias(p.Elem()))
		return full == "cosmossdk.io/errors.Error" || full == "github.com/cosmos/cosmos-sdk/types/errors.Error"
	}
	return typeFullName(t) == "error"
}

func (e *Enc) store(l *Loc, val string) {
	switch l.Kind {
	case "local", "global":
		root := e.getState(l.Name)
		e.setState(l.Name, e.g().SortOf(l.T), e.storePath(root, l.T, l.Path, val))
	case "heap":
		h := e.getState(l.Name)
		root := fmt.Sprintf("(select %s %s)", h, l.Base)
		nv := e.storePath(root, l.T, l.Path, val)
		e.setState(l.Name, "", fmt.Sprintf("(store %s %s %s)", h, l.Base, nv))
	case "elem":
		e.r.errorf("outside subset: in-place write to a slice element in %s", e.fn.Name())
	}
}

// ---------------------------------------------------------------------------------------------
// CFG helpers

func findLoops(fn *ssa.Function) (map[*ssa.BasicBlock]*loopInfo, []*loopInfo) {
	loops := map[*ssa.BasicBlock]*loopInfo{}
	for _, b := range fn.Blocks {
		for _, s := range b.Succs {
			if s.Dominates(b) {
				li := loops[s]
				if li == nil {
					li = &loopInfo{head: s, body: map[*ssa.BasicBlock]bool{s: true}}
					loops[s] = li
				}
				// natural loop: nodes reaching b without passing s
				stack := []*ssa.BasicBlock{b}
				for len(stack) > 0 {
					n := stack[len(stack)-1]
					stack = stack[:len(stack)-1]
					if li.body[n] {
						continue
					}
					li.body[n] = true
					stack = append(stack, n.Preds...)
				}
			}
		}
	}
	var order []*loopInfo
	for _, li := range loops {
		order = append(order, li)
	}
	sort.Slice(order, func(i, j int) bool { return order[i].head.Index < order[j].head.Index })
	for i, li := range order {
		li.name = fmt.Sprintf("L%d", i+1)
	}
	return loops, order
}

func isBackEdge(from, to *ssa.BasicBlock) bool { return to.Dominates(from) }

// topo order over forward edges
func topoBlocks(fn *ssa.Function) []*ssa.BasicBlock {
	var order []*ssa.BasicBlock
	seen := map[*ssa.BasicBlock]bool{}
	var visit func(b *ssa.BasicBlock)
	visit = func(b *ssa.BasicBlock) {
		if seen[b] {
			return
		}
		seen[b] = true
		for _, s := range b.Succs {
			if !isBackEdge(b, s) {
				visit(s)
			}
		}
		order = append(order, b)
	}
	if len(fn.Blocks) > 0 {
		visit(fn.Blocks[0])
	}
	// reverse postorder
	for i, j := 0, len(order)-1; i < j; i, j = i+1, j-1 {
		order[i], order[j] = order[j], order[i]
	}
	return order
}

func (e *Enc) edgeCond(from, to *ssa.BasicBlock) string {
	r := e.reach[from]
	if len(from.Instrs) == 0 {
		return r
	}
	if ifi, ok := from.Instrs[len(from.Instrs)-1].(*ssa.If); ok {
		c := e.val(ifi.Cond)
		if from.Succs[0] == to && from.Succs[1] == to {
			return r
		}
		if from.Succs[0] == to {
			return fmt.Sprintf("(and %s %s)", r, c)
		}
		return fmt.Sprintf("(and %s (not %s))", r, c)
	}
	return r
}

func orTerms(ts []string) string {
	if len(ts) == 0 {
		return "false"
	}
	if len(ts) == 1 {
		return ts[0]
	}
	return "(or " + strings.Join(ts, " ") + ")"
}

func andTerms(ts []string) string {
	var f []string
	for _, t := range ts {
		if t != "true" {
			f = append(f, t)
		}
	}
	if len(f) == 0 {
		return "true"
	}
	if len(f) == 1 {
		return f[0]
	}
	return "(and " + strings.Join(f, " ") + ")"
}

func iteChain(conds, vals []string) string {
	if len(vals) == 1 {
		return vals[0]
	}
	same := true
	for _, v := range vals[1:] {
		if v != vals[0] {
			same = false
		}
	}
	if same {
		return vals[0]
	}
	out := vals[len(vals)-1]
	for i := len(vals) - 2; i >= 0; i-- {
		out = fmt.Sprintf("(ite %s %s %s)", conds[i], vals[i], out)
	}
	return out
}

// mergeStates merges predecessor states under edge conditions.
func (e *Enc) mergeStates(conds []string, sts []map[string]string) map[string]string {
	if len(sts) == 1 {
		return copyState(sts[0])
	}
	names := map[string]bool{}
	for _, s := range sts {
		for k := range s {
			names[k] = true
		}
	}
	out := map[string]string{}
	for _, k := range sortedKeys(names) {
		var vs []string
		for _, s := range sts {
			if v, ok := s[k]; ok {
				vs = append(vs, v)
			} else {
				vs = append(vs, e.r.initState(k))
			}
		}
		out[k] = e.r.def("mg_"+mangle(k), e.r.stSort[k], iteChain(conds, vs))
	}
	return out
}

// ---------------------------------------------------------------------------------------------

func (e *Enc) encodeBody() {
	fn := e.fn
	if len(fn.Blocks) == 0 {
		e.r.errorf("no body for %s", fn.String())
		return
	}
	loops, order := findLoops(fn)
	e.loops = loops
	if e.depth > 0 && len(order) > 0 {
		e.r.errorf("needs contract: %s has loops and cannot be inlined", fn.String())
		return
	}
	for _, li := range order {
		if e.ct != nil {
			li.spec = e.ct.Loops[li.name]
		}
	}
	e.collectDebug()
	e.panicBlocks = map[*ssa.BasicBlock]bool{}
	for _, b := range topoBlocks(fn) {
		e.cur = b
		if e.depth == 0 {
			e.r.curBlock = b.Index
		}
		e.encodeBlockEntry(b)
		// vacuity guard: the loop body must be enterable under the loop-head assumptions (contradictory invariants would
		// make every obligation inside the body hold trivially)
		for _, p := range b.Preds {
			if li := e.loops[p]; li != nil && li.body[b] && e.loops[b] == nil && e.depth == 0 {
				e.r.addObl(&Obligation{Name: fmt.Sprintf("%s#cover@%s.body", e.r.fnShort, li.name), Kind: "cover", Goal: e.reach[b], ExpSat: true,
					Src: "the body of loop " + li.name + " is reachable under its invariants"})
			}
		}
		if debugCoverBlocks && e.depth == 0 {
			// debugging: every block that holds a call must be reachable under the assumptions collected so far
			hasCall, isPanic := false, false
			for _, ins := range b.Instrs {
				switch ins.(type) {
				case *ssa.Call:
					hasCall = true
				case *ssa.Panic:
					isPanic = true
				}
			}
			if hasCall && !isPanic {
				pos := ""
				for _, ins := range b.Instrs {
					if c, ok := ins.(*ssa.Call); ok && c.Pos().IsValid() {
						pos = posStr(e.fn.Prog.Fset, c.Pos())
						break
					}
				}
				e.r.addObl(&Obligation{Name: fmt.Sprintf("%s#cover@block%d", e.r.fnShort, b.Index), Kind: "cover", Goal: e.reach[b], ExpSat: true,
					Src: "block with a call at " + pos + " is reachable"})
			}
		}
		for _, ins := range b.Instrs {
			e.instr(ins)
		}
		e.stOut[b] = e.st
		// back edges out of b
		for _, s := range b.Succs {
			if isBackEdge(b, s) {
				e.backEdge(b, s)
			}
		}
		// loop exits out of b: "loop Lk ensures" clauses
		for _, li := range e.loops {
			if !li.body[b] || li.spec == nil || len(li.spec.Exit) == 0 {
				continue
			}
			for _, s := range b.Succs {
				if li.body[s] {
					continue
				}
				cond := e.r.def(e.pfx+fmt.Sprintf("exit_%d_%d", b.Index, s.Index), "Bool", e.edgeCond(b, s))
				for i, ex := range li.spec.Exit {
					env := e.specEnv(li.head, nil)
					t := env.boolExpr(ex.E)
					e.r.addObl(&Obligation{Name: fmt.Sprintf("%s#exit@%s#%d", e.r.fnShort, li.name, i+1), Kind: "loop.exit", Tags: ex.Tags,
						Goal: fmt.Sprintf("(=> %s %s)", cond, t), Src: "loop " + li.name + " ensures " + ex.Src})
				}
			}
		}
	}
}

var debugCoverBlocks bool

func (e *Enc) collectDebug() {
	e.dbg = map[string][]ssa.Value{}
	for _, b := range e.fn.Blocks {
		for _, ins := range b.Instrs {
			if d, ok := ins.(*ssa.DebugRef); ok && !d.IsAddr {
				if id, ok := d.Expr.(interface{ String() string }); ok {
					_ = id
				}
				if obj := d.Object(); obj != nil {
					e.dbg[obj.Name()] = append(e.dbg[obj.Name()], d.X)
				}
			}
		}
	}
}

func (e *Enc) encodeBlockEntry(b *ssa.BasicBlock) {
	r := e.r
	if b.Index == 0 {
		rn := r.fresh(e.pfx + "reach_b0")
		r.items = append(r.items, Item{"def", fmt.Sprintf("(define-fun %s () Bool %s)", rn, e.guard), r.curBlock})
		e.reach[b] = rn
		e.st = copyState(e.entrySt)
		return
	}
	var conds []string
	var sts []map[string]string
	var preds []*ssa.BasicBlock
	for _, p := range b.Preds {
		if isBackEdge(p, b) {
			continue
		}
		if _, ok := e.reach[p]; !ok {
			continue // unreachable predecessor
		}
		preds = append(preds, p)
		conds = append(conds, r.def(e.pfx+fmt.Sprintf("edge_%d_%d", p.Index, b.Index), "Bool", e.edgeCond(p, b)))
		sts = append(sts, e.stOut[p])
	}
	if len(preds) == 0 {
		// unreachable block
		rn := r.fresh(e.pfx + fmt.Sprintf("reach_b%d", b.Index))
		r.items = append(r.items, Item{"def", fmt.Sprintf("(define-fun %s () Bool false)", rn), r.curBlock})
		e.reach[b] = rn
		e.st = copyState(e.entrySt)
		return
	}
	entryReach := r.def(e.pfx+fmt.Sprintf("reach_b%d", b.Index), "Bool", orTerms(conds))
	st := e.mergeStates(conds, sts)
	li := e.loops[b]
	if li == nil {
		e.reach[b] = entryReach
		e.st = st
		// phis
		for _, ins := range b.Instrs {
			phi, ok := ins.(*ssa.Phi)
			if !ok {
				break
			}
			e.encodePhi(phi, preds, conds)
		}
		return
	}
	// ---- loop head ----
	r.comment(fmt.Sprintf("loop %s head (block %d) of %s", li.name, b.Index, e.fn.Name()))
	// entry values of phis
	entryVals := map[*ssa.Phi]string{}
	var phis []*ssa.Phi
	for _, ins := range b.Instrs {
		phi, ok := ins.(*ssa.Phi)
		if !ok {
			break
		}
		phis = append(phis, phi)
		var vs []string
		for _, p := range preds {
			for i, pp := range b.Preds {
				if pp == p {
					vs = append(vs, e.val(phi.Edges[i]))
					break
				}
			}
		}
		entryVals[phi] = r.def(e.pfx+phi.Name()+"_entry", e.g().SortOf(phi.Type()), iteChain(conds, vs))
	}
	if li.spec == nil {
		li.spec = &LoopSpec{}
		if !r.discover && e.ct != nil && !e.ct.Trusted {
			r.errorf("missing invariant: loop %s of %s has no loop clauses", li.name, e.fn.Name())
		}
	}
	// invariant at entry
	e.st = st
	e.reach[b] = entryReach
	for _, phi := range phis {
		e.vals[phi] = entryVals[phi]
	}
	nextRefEntry := e.getNextRef()
	li.entryNextRef = nextRefEntry
	li.entrySt = copyState(st)
	for i, inv := range li.spec.Inv {
		env := e.specEnv(b, nil)
		t := env.boolExpr(inv.E)
		r.addObl(&Obligation{Name: fmt.Sprintf("%s#inv@%s.entry#%d", r.fnShort, li.name, i+1), Kind: "inv.entry", Tags: inv.Tags,
			Goal: fmt.Sprintf("(=> %s %s)", entryReach, t), Src: inv.Src})
	}
	// havoc
	mods := r.modsets[b.Index]
	preSt := copyState(st)
	for _, name := range sortedKeys(mods) {
		if _, ok := r.stSort[name]; !ok {
			continue
		}
		if strings.HasPrefix(name, "loc:") && !e.localLiveAcross(name, li) {
			continue
		}
		e.st[name] = r.decl(r.fresh("hv_"+mangle(name)), r.stSort[name])
	}
	hr := r.decl(r.fresh(e.pfx+fmt.Sprintf("inloop_b%d", b.Index)), "Bool")
	r.assume(fmt.Sprintf("(=> %s %s)", hr, entryReach))
	e.reach[b] = hr
	for _, phi := range phis {
		c := r.decl(r.fresh(e.pfx+phi.Name()), e.g().SortOf(phi.Type()))
		e.vals[phi] = c
		e.typeInv(c, phi.Type(), 0)
		if _, isPtr := types.Unalias(phi.Type()).Underlying().(*types.Pointer); isPtr {
			e.locs[phi] = nil
			delete(e.locs, phi)
			// memory-model typing invariant: pointer values held in variables denote allocated cells
			r.assume(fmt.Sprintf("(and (<= 0 %s) (< %s %s))", c, c, e.getNextRef()))
		}
	}
	// implicit invariants: nextRef monotone; heap frame for pre-existing cells
	if mods["nextRef"] {
		r.assume(fmt.Sprintf("(=> %s (>= %s %s))", hr, e.getNextRef(), nextRefEntry))
	}
	if !li.spec.NoFrame {
		for _, name := range sortedKeys(mods) {
			if strings.HasPrefix(name, "heap:") {
				// implicit inductive invariant: cells that existed when the loop was entered keep the value they had then
				// (assumed at the head, checked at every back edge; opt out with "loop Lk noframe").
				name := name
				pre := preSt2(preSt, r, name)
				var excl []string
				for _, vn := range li.spec.FrameExcept {
					for _, p := range e.fn.Params {
						if p.Name() == vn {
							if pt, ok := types.Unalias(p.Type()).Underlying().(*types.Pointer); ok && heapName(pt.Elem()) == name {
								excl = append(excl, fmt.Sprintf("(not (= r!f %s))", e.val(p)))
							}
						}
					}
					for _, bb := range e.fn.Blocks {
						for _, ins := range bb.Instrs {
							if a, ok := ins.(*ssa.Alloc); ok && a.Comment == vn {
								if l := e.locs[a]; l != nil && l.Kind == "heap" && l.Name == name {
									excl = append(excl, fmt.Sprintf("(not (= r!f %s))", l.Base))
								}
							}
						}
					}
				}
				exclT := andTerms(excl)
				f := func() string {
					cur := e.getState(name)
					return fmt.Sprintf("(forall ((r!f Int)) (! (=> (and (< r!f %s) %s) (= (select %s r!f) (select %s r!f))) :pattern ((select %s r!f))))",
						nextRefEntry, exclT, cur, pre, cur)
				}
				li.autoInv = append(li.autoInv, autoInv{name: "frame:" + mangle(name), f: f})
				r.assume(fmt.Sprintf("(=> %s %s)", hr, f()))
			}
		}
	}
	li.headSt = copyState(e.st)
	for _, inv := range li.spec.Inv {
		env := e.specEnv(b, nil)
		t := env.boolExpr(inv.E)
		r.assume(fmt.Sprintf("(=> %s %s)", hr, t))
	}
	if li.spec.Dec != nil {
		env := e.specEnv(b, nil)
		sv := env.expr(li.spec.Dec.E)
		li.decAtHead = r.def(e.pfx+"variant_"+li.name, "Int", sv.t)
	}
}

func preSt2(pre map[string]string, r *Root, name string) string {
	if v, ok := pre[name]; ok {
		return v
	}
	return r.initState(name)
}

type autoInv struct {
	name string
	f    func() string
}

func (e *Enc) localLiveAcross(name string, li *loopInfo) bool {
	return true
}

func (e *Enc) backEdge(from, head *ssa.BasicBlock) {
	r := e.r
	li := e.loops[head]
	cond := r.def(e.pfx+fmt.Sprintf("back_%d_%d", from.Index, head.Index), "Bool", e.edgeCond(from, head))
	// values flowing along the back edge
	saveVals := map[*ssa.Phi]string{}
	idx := -1
	for i, p := range head.Preds {
		if p == from {
			idx = i
		}
	}
	var phis []*ssa.Phi
	for _, ins := range head.Instrs {
		phi, ok := ins.(*ssa.Phi)
		if !ok {
			break
		}
		phis = append(phis, phi)
	}
	newVals := map[*ssa.Phi]string{}
	for _, phi := range phis {
		newVals[phi] = e.val(phi.Edges[idx])
	}
	for _, phi := range phis {
		saveVals[phi] = e.vals[phi]
		e.vals[phi] = newVals[phi]
	}
	saveSt := e.st
	e.st = e.stOut[from]
	for i, inv := range li.spec.Inv {
		env := e.specEnv(head, nil)
		t := env.boolExpr(inv.E)
		r.addObl(&Obligation{Name: fmt.Sprintf("%s#inv@%s.preserve#%d", r.fnShort, li.name, i+1), Kind: "inv.preserve", Tags: inv.Tags,
			Goal: fmt.Sprintf("(=> %s %s)", cond, t), Src: inv.Src})
	}
	// implicit heap frame preservation
	for _, ai := range li.autoInv {
		r.addObl(&Obligation{Name: fmt.Sprintf("%s#inv@%s.preserve#%s", r.fnShort, li.name, ai.name), Kind: "inv.preserve",
			Goal: fmt.Sprintf("(=> %s %s)", cond, ai.f()), Src: "implicit heap frame " + ai.name})
	}
	if li.spec.Dec != nil {
		env := e.specEnv(head, nil)
		sv := env.expr(li.spec.Dec.E)
		r.addObl(&Obligation{Name: fmt.Sprintf("%s#term@%s", r.fnShort, li.name), Kind: "term", Tags: li.spec.Dec.Tags,
			Goal: fmt.Sprintf("(=> %s (and (>= %s 0) (< %s %s)))", cond, li.decAtHead, sv.t, li.decAtHead), Src: "decreases " + li.spec.Dec.Src})
	}
	e.st = saveSt
	for _, phi := range phis {
		e.vals[phi] = saveVals[phi]
	}
}

func (e *Enc) encodePhi(phi *ssa.Phi, preds []*ssa.BasicBlock, conds []string) {
	b := phi.Block()
	var vs []string
	for _, p := range preds {
		for i, pp := range b.Preds {
			if pp == p {
				vs = append(vs, e.val(phi.Edges[i]))
				break
			}
		}
	}
	e.vals[phi] = e.r.def(e.name(phi), e.g().SortOf(phi.Type()), iteChain(conds, vs))
}

func (e *Enc) getNextRef() string {
	e.ensureState("nextRef", "Int")
	return e.getState("nextRef")
}

func (e *Enc) allocRef() string {
	nr := e.getNextRef()
	ref := e.r.def(e.pfx+"ref", "Int", nr)
	e.setState("nextRef", "Int", fmt.Sprintf("(+ %s 1)", nr))
	return ref
}

func posStr(fset *token.FileSet, p token.Pos) string {
	if !p.IsValid() {
		return "?"
	}
	ps := fset.Position(p)
	return fmt.Sprintf("%s:%d", ps.Filename, ps.Line)
}

// specEnv builds the environment for loop clauses evaluated at block `at`: parameters, local variables by source name,
// current state = e.st, old state = function entry.
func (e *Enc) specEnv(at *ssa.BasicBlock, extra map[string]SV) *SpecEnv {
	vars := map[string]SV{}
	for _, p := range e.fn.Params {
		vars[p.Name()+"0"] = SV{t: e.val(p), sort: e.g().SortOf(p.Type()), gt: p.Type()}
	}
	for k, v := range extra {
		vars[k] = v
	}
	env := &SpecEnv{e: e, vars: vars, old: map[string]string{}, errCtx: "loop clause in " + e.fn.Name(), at: at}
	if li := e.loops[at]; li != nil && li.entrySt != nil {
		env.entry = li.entrySt
	}
	return env
}
