package main

// Contract files: comment-only Go files (//go:build verif) in /repo packages, lines starting with //@.

import (
	"bufio"
	"fmt"
	"os"
	"path/filepath"
	"regexp"
	"sort"
	"strings"
)

type Clause struct {
	Tags []string // property tags like C07.release.amount ; empty = well-formedness (serves all)
	Src  string
	E    *SExpr
	File string
	Line int
}

func (c *Clause) Name() string {
	if len(c.Tags) > 0 {
		return strings.Join(c.Tags, "+")
	}
	return ""
}

type LoopSpec struct {
	Inv []*Clause
	Dec *Clause
	// NoFrame disables the implicit heap-frame invariant
	NoFrame bool
}

type Contract struct {
	Key      string // "<pkgpath>.<Recv>.<Func>" or "<pkgpath>.<Func>"
	Pkg      string
	Recv     string
	Func     string
	Params   []string
	Results  []string
	Requires []*Clause
	Ensures  []*Clause
	Modifies []*Clause // each is an lvalue-ish expression
	ModAll   bool      // "modifies *" : no frame claimed
	NoPanic  []*Clause // nopanic [tag] when <expr> ; expr may be nil (true)
	Loops    map[string]*LoopSpec
	Trusted  bool // contract assumed, body not verified (listed as assumption)
	Functional bool // result is a function of the arguments only (checked: the body reads no chain state); callers and specs see F(args)
	TrustWhy string
	Term     []*Clause // terminates [tag]
	File     string
	Line     int
	Props    map[string]bool // properties this function serves (from tags)
}

type StoreDecl struct {
	Name   string
	KV     string // state var name: "kv:<module>/<prefix>"
	KeyFun string // SMT function name for key construction ("" = single fixed key)
	KeyArg []string
	ValTy  string // go type "pkgpath.Name" of the stored value, or builtin
	Module string
	Prefix string
	Raw    bool // values are raw bytes (no unmarshal)
}

type PureFun struct {
	Name   string
	Params [][2]string // name, type
	Ret    string
	Body   *Clause
}

type Lemma struct {
	Name string
	Body *Clause
	Tags []string
}

type Specs struct {
	Contracts map[string]*Contract
	Stores    map[string]*StoreDecl
	Pures     map[string]*PureFun
	PureOrder []string
	Axioms    []*Lemma
	Lemmas    []*Lemma
	Files     []string
	Params    map[string]string // key variable full name -> declared type name
}

var clauseKW = map[string]bool{"store": true, "pure": true, "axiom": true, "func": true, "requires": true, "ensures": true,
	"modifies": true, "nopanic": true, "loop": true, "terminates": true, "trusted": true, "lemma": true, "accessor": true, "package": true, "param": true, "functional": true}

var tagRe = regexp.MustCompile(`^\s*\[([A-Za-z0-9_.\-]+)\]`)

func parseTags(s string) ([]string, string) {
	var tags []string
	for {
		m := tagRe.FindStringSubmatch(s)
		if m == nil {
			break
		}
		tags = append(tags, m[1])
		s = s[len(m[0]):]
	}
	return tags, strings.TrimSpace(s)
}

func LoadSpecs(repo string) (*Specs, error) {
	sp := &Specs{Contracts: map[string]*Contract{}, Stores: map[string]*StoreDecl{}, Pures: map[string]*PureFun{}}
	var files []string
	filepath.Walk(repo, func(p string, info os.FileInfo, err error) error {
		if err != nil {
			return nil
		}
		if info.IsDir() && (info.Name() == ".git" || info.Name() == "node_modules" || info.Name() == "docs") {
			return filepath.SkipDir
		}
		if !info.IsDir() && strings.HasPrefix(info.Name(), "zz_verif_") && strings.HasSuffix(info.Name(), ".go") {
			files = append(files, p)
		}
		return nil
	})
	sort.Strings(files)
	for _, f := range files {
		if err := sp.loadFile(repo, f); err != nil {
			return nil, err
		}
	}
	sp.Files = files
	return sp, nil
}

type rawClause struct {
	kw   string
	text string
	line int
}

func (sp *Specs) loadFile(repo, file string) error {
	fh, err := os.Open(file)
	if err != nil {
		return err
	}
	defer fh.Close()
	rel, _ := filepath.Rel(repo, filepath.Dir(file))
	pkgPath := "github.com/SaoNetwork/sao/" + filepath.ToSlash(rel)
	sc := bufio.NewScanner(fh)
	sc.Buffer(make([]byte, 1<<20), 1<<20)
	var raws []rawClause
	ln := 0
	for sc.Scan() {
		ln++
		line := sc.Text()
		t := strings.TrimSpace(line)
		if !strings.HasPrefix(t, "//@") {
			continue
		}
		body := strings.TrimSpace(t[3:])
		if body == "" {
			continue
		}
		if i := strings.Index(body, " //"); i >= 0 && !strings.Contains(body[:i], `"`) {
			body = strings.TrimSpace(body[:i])
		}
		first := body
		if i := strings.IndexAny(body, " \t"); i >= 0 {
			first = body[:i]
		}
		if clauseKW[first] {
			raws = append(raws, rawClause{first, strings.TrimSpace(body[len(first):]), ln})
		} else if len(raws) > 0 {
			raws[len(raws)-1].text += " " + body
		} else {
			return fmt.Errorf("%s:%d: continuation without clause", file, ln)
		}
	}
	var cur *Contract
	mk := func(r rawClause, text string) (*Clause, error) {
		tags, rest := parseTags(text)
		c := &Clause{Tags: tags, Src: rest, File: file, Line: r.line}
		if rest != "" {
			e, err := parseSpec(rest)
			if err != nil {
				return nil, fmt.Errorf("%s:%d: %v", file, r.line, err)
			}
			c.E = e
		}
		return c, nil
	}
	for _, r := range raws {
		switch r.kw {
		case "package":
			pkgPath = strings.TrimSpace(r.text)
		case "param":
			// param <pkgpath.KeyVar> <type>
			fs := strings.Fields(r.text)
			if len(fs) != 2 {
				return fmt.Errorf("%s:%d: bad param decl", file, r.line)
			}
			if sp.Params == nil {
				sp.Params = map[string]string{}
			}
			sp.Params[fs[0]] = fs[1]
		case "store":
			// store Name kv=<module>/<prefix> key=<fun>(argtypes) val=<type> [raw]
			fs := strings.Fields(r.text)
			if len(fs) < 3 {
				return fmt.Errorf("%s:%d: bad store decl", file, r.line)
			}
			sd := &StoreDecl{Name: fs[0]}
			for _, f := range fs[1:] {
				switch {
				case strings.HasPrefix(f, "kv="):
					v := f[3:]
					v = strings.Trim(v, `"`)
					i := strings.Index(v, "/")
					sd.Module, sd.Prefix = v[:i], v[i+1:]
					sd.KV = "kv:" + v
				case strings.HasPrefix(f, "key="):
					sd.KeyFun = f[4:]
				case strings.HasPrefix(f, "val="):
					sd.ValTy = f[4:]
				case f == "raw":
					sd.Raw = true
				}
			}
			sp.Stores[sd.Name] = sd
		case "pure":
			// pure name(x T, y T) R = expr
			m := regexp.MustCompile(`^(\w+)\s*\(([^)]*)\)\s*([\w.]+)\s*=\s*(.*)$`).FindStringSubmatch(r.text)
			if m == nil {
				return fmt.Errorf("%s:%d: bad pure decl", file, r.line)
			}
			pf := &PureFun{Name: m[1], Ret: m[3]}
			for _, p := range strings.Split(m[2], ",") {
				p = strings.TrimSpace(p)
				if p == "" {
					continue
				}
				fs := strings.Fields(p)
				if len(fs) != 2 {
					return fmt.Errorf("%s:%d: bad pure param %q", file, r.line, p)
				}
				pf.Params = append(pf.Params, [2]string{fs[0], fs[1]})
			}
			c, err := mk(r, m[4])
			if err != nil {
				return err
			}
			pf.Body = c
			sp.Pures[pf.Name] = pf
			sp.PureOrder = append(sp.PureOrder, pf.Name)
		case "axiom", "lemma":
			i := strings.Index(r.text, ":")
			if i < 0 {
				return fmt.Errorf("%s:%d: bad %s", file, r.line, r.kw)
			}
			nameTags := strings.TrimSpace(r.text[:i])
			tags, name := parseTags(nameTags)
			c, err := mk(r, r.text[i+1:])
			if err != nil {
				return err
			}
			l := &Lemma{Name: name, Body: c, Tags: tags}
			if r.kw == "axiom" {
				sp.Axioms = append(sp.Axioms, l)
			} else {
				sp.Lemmas = append(sp.Lemmas, l)
			}
		case "accessor":
			// accessor get|set|del|has (Recv) Func Store(keyexpr, ...) [valueexpr]
			m := regexp.MustCompile(`^(get|set|del)\s+\(\s*(\w+)\s*\)\s+(\w+)\s+(\w+)\(([^)]*)\)\s*(.*)$`).FindStringSubmatch(r.text)
			if m == nil {
				return fmt.Errorf("%s:%d: bad accessor decl %q", file, r.line, r.text)
			}
			kind, recv, fname, store, keys, val := m[1], m[2], m[3], m[4], strings.TrimSpace(m[5]), strings.TrimSpace(m[6])
			ct := &Contract{Pkg: pkgPath, Recv: recv, Func: fname, Loops: map[string]*LoopSpec{}, File: file, Line: r.line, Props: map[string]bool{}}
			ct.Key = pkgPath + "." + recv + "." + fname
			idx := store
			hasArgs := store
			if keys != "" {
				idx = store + "[" + keys + "]"
				hasArgs = store + ", " + keys
			} else {
				idx = "get(" + store + ")"
			}
			add := func(list *[]*Clause, text string) error {
				c, err := mk(r, text)
				if err != nil {
					return err
				}
				*list = append(*list, c)
				return nil
			}
			var err error
			switch kind {
			case "get":
				ct.Results = []string{"val", "found"}
				if err = add(&ct.Ensures, "found == has("+hasArgs+")"); err == nil {
					err = add(&ct.Ensures, "found ==> val == "+idx)
				}
			case "set":
				if keys != "" {
					err = add(&ct.Modifies, idx)
				} else {
					err = add(&ct.Modifies, store)
				}
				if err == nil {
					err = add(&ct.Ensures, "has("+hasArgs+")")
				}
				if err == nil {
					err = add(&ct.Ensures, idx+" == "+val)
				}
			case "del":
				if keys != "" {
					err = add(&ct.Modifies, idx)
				} else {
					err = add(&ct.Modifies, store)
				}
				if err == nil {
					err = add(&ct.Ensures, "!has("+hasArgs+")")
				}
			}
			if err != nil {
				return err
			}
			if _, dup := sp.Contracts[ct.Key]; dup {
				return fmt.Errorf("%s:%d: duplicate contract for %s", file, r.line, ct.Key)
			}
			sp.Contracts[ct.Key] = ct
			cur = ct
		case "func":
			m := regexp.MustCompile(`^(?:\(\s*\*?(\w+)\s*\)\s*)?(\w+)\s*(?:\(([^)]*)\))?\s*(?:\(([^)]*)\))?\s*$`).FindStringSubmatch(r.text)
			if m == nil {
				return fmt.Errorf("%s:%d: bad func header %q", file, r.line, r.text)
			}
			cur = &Contract{Pkg: pkgPath, Recv: m[1], Func: m[2], Loops: map[string]*LoopSpec{}, File: file, Line: r.line, Props: map[string]bool{}}
			for _, p := range strings.Split(m[3], ",") {
				if p = strings.TrimSpace(p); p != "" {
					cur.Params = append(cur.Params, p)
				}
			}
			for _, p := range strings.Split(m[4], ",") {
				if p = strings.TrimSpace(p); p != "" {
					cur.Results = append(cur.Results, p)
				}
			}
			cur.Key = pkgPath + "."
			if cur.Recv != "" {
				cur.Key += cur.Recv + "."
			}
			cur.Key += cur.Func
			if _, dup := sp.Contracts[cur.Key]; dup {
				return fmt.Errorf("%s:%d: duplicate contract for %s", file, r.line, cur.Key)
			}
			sp.Contracts[cur.Key] = cur
		default:
			if cur == nil {
				return fmt.Errorf("%s:%d: clause outside func", file, r.line)
			}
			switch r.kw {
			case "requires":
				c, err := mk(r, r.text)
				if err != nil {
					return err
				}
				cur.Requires = append(cur.Requires, c)
			case "ensures":
				c, err := mk(r, r.text)
				if err != nil {
					return err
				}
				cur.Ensures = append(cur.Ensures, c)
			case "modifies":
				if strings.TrimSpace(r.text) == "*" {
					cur.ModAll = true
					break
				}
				for _, item := range splitTop(r.text) {
					c, err := mk(r, item)
					if err != nil {
						return err
					}
					cur.Modifies = append(cur.Modifies, c)
				}
			case "nopanic":
				tags, rest := parseTags(r.text)
				rest = strings.TrimSpace(strings.TrimPrefix(rest, "when"))
				c := &Clause{Tags: tags, Src: rest, File: file, Line: r.line}
				if rest != "" {
					e, err := parseSpec(rest)
					if err != nil {
						return fmt.Errorf("%s:%d: %v", file, r.line, err)
					}
					c.E = e
				}
				cur.NoPanic = append(cur.NoPanic, c)
			case "terminates":
				tags, _ := parseTags(r.text)
				cur.Term = append(cur.Term, &Clause{Tags: tags, File: file, Line: r.line})
			case "trusted":
				cur.Trusted = true
				cur.TrustWhy = r.text
			case "functional":
				cur.Functional = true
			case "loop":
				fs := strings.Fields(r.text)
				if len(fs) < 2 {
					return fmt.Errorf("%s:%d: bad loop clause", file, r.line)
				}
				ls := cur.Loops[fs[0]]
				if ls == nil {
					ls = &LoopSpec{}
					cur.Loops[fs[0]] = ls
				}
				rest := strings.TrimSpace(strings.TrimPrefix(strings.TrimSpace(strings.TrimPrefix(r.text, fs[0])), fs[1]))
				switch fs[1] {
				case "invariant":
					c, err := mk(r, rest)
					if err != nil {
						return err
					}
					ls.Inv = append(ls.Inv, c)
				case "decreases":
					c, err := mk(r, rest)
					if err != nil {
						return err
					}
					ls.Dec = c
				case "noframe":
					ls.NoFrame = true
				default:
					return fmt.Errorf("%s:%d: bad loop clause kind %q", file, r.line, fs[1])
				}
			}
		}
	}
	return nil
}

// splitTop splits on commas not nested in parentheses/brackets.
func splitTop(s string) []string {
	var out []string
	depth := 0
	start := 0
	for i, c := range s {
		switch c {
		case '(', '[':
			depth++
		case ')', ']':
			depth--
		case ',':
			if depth == 0 {
				out = append(out, strings.TrimSpace(s[start:i]))
				start = i + 1
			}
		}
	}
	if t := strings.TrimSpace(s[start:]); t != "" {
		out = append(out, t)
	}
	return out
}

func clauseServes(c *Clause, prop string) bool {
	if prop == "" || len(c.Tags) == 0 {
		return true
	}
	for _, t := range c.Tags {
		if t == prop || strings.HasPrefix(t, prop+".") {
			return true
		}
	}
	return false
}

func (ct *Contract) servesProp(prop string) bool {
	if prop == "" {
		return true
	}
	all := [][]*Clause{ct.Ensures, ct.NoPanic, ct.Term, ct.Requires}
	for _, l := range all {
		for _, c := range l {
			for _, t := range c.Tags {
				if t == prop || strings.HasPrefix(t, prop+".") {
					return true
				}
			}
		}
	}
	for _, ls := range ct.Loops {
		for _, c := range ls.Inv {
			for _, t := range c.Tags {
				if t == prop || strings.HasPrefix(t, prop+".") {
					return true
				}
			}
		}
	}
	return false
}
