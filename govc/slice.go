package main

// Relevance slicing of assumptions (SInE-style). Dropping assumptions is sound for proving: a proof from fewer
// hypotheses is a proof. The sliced query is tried first; the full query remains the fallback.

import (
	"regexp"
	"sort"
	"strings"
	"sync"
)

// sliceMu guards the per-root caches (slice info, cones): obligations of one function are solved concurrently.
var sliceMu sync.Mutex

var symRe = regexp.MustCompile(`[A-Za-z_][A-Za-z0-9_!.]*`)

var smtKeywords = map[string]bool{"assert": true, "and": true, "or": true, "not": true, "ite": true, "forall": true, "exists": true, "select": true,
	"store": true, "let": true, "true": true, "false": true, "Int": true, "Bool": true, "Array": true, "as": true, "const": true, "pattern": true,
	"div": true, "mod": true, "distinct": true, "declare": true, "define": true, "fun": true, "RNE": true, "to_fp": true, "FloatingPoint": true,
	"to_real": true, "fp.geq": true, "fp.leq": true, "fp.lt": true, "fp.gt": true, "fp.eq": true, "fp.add": true, "fp.sub": true, "fp.neg": true,
	"fp.isNaN": true, "fp.isInfinite": true, "define-fun": true, "declare-const": true, "declare-fun": true}

func symbolsOf(s string) []string {
	seen := map[string]bool{}
	var out []string
	for _, m := range symRe.FindAllString(s, -1) {
		if smtKeywords[m] || seen[m] {
			continue
		}
		// bound variables of our own quantifiers carry a '!' followed by a single letter tag (k!a, r!f, j!q ...)
		if i := strings.LastIndex(m, "!"); i > 0 && len(m)-i <= 2 && !(m[i+1] >= '0' && m[i+1] <= '9') {
			continue
		}
		seen[m] = true
		out = append(out, m)
	}
	return out
}

type sliceCache struct {
	defSyms map[string][]string // define-fun name -> primitive symbols (transitive)
	itemSym [][]string          // per item: primitive symbols
}

func (r *Root) sliceInfo() *sliceCache {
	sliceMu.Lock()
	defer sliceMu.Unlock()
	if r.slice != nil && len(r.slice.itemSym) == len(r.items) {
		return r.slice
	}
	sc := &sliceCache{defSyms: map[string][]string{}}
	expand := func(syms []string) []string {
		set := map[string]bool{}
		for _, s := range syms {
			if d, ok := sc.defSyms[s]; ok {
				for _, x := range d {
					set[x] = true
				}
			} else {
				set[s] = true
			}
		}
		out := make([]string, 0, len(set))
		for s := range set {
			out = append(out, s)
		}
		sort.Strings(out)
		return out
	}
	for _, it := range r.items {
		switch it.Kind {
		case "def":
			// (define-fun name () Sort body)
			t := strings.TrimPrefix(it.Text, "(define-fun ")
			sp := strings.IndexByte(t, ' ')
			name := t[:sp]
			body := t[sp:]
			sc.defSyms[name] = expand(symbolsOf(body))
			sc.itemSym = append(sc.itemSym, nil)
		case "assume":
			sc.itemSym = append(sc.itemSym, expand(symbolsOf(it.Text)))
		default:
			sc.itemSym = append(sc.itemSym, nil)
		}
	}
	r.slice = sc
	return sc
}

// cone: the basic blocks from which the block of obligation o can be reached (including itself); nil = every block.
// Facts produced while encoding a block outside the cone are guarded by a reach condition that is incompatible with the
// obligation's own, so dropping them loses nothing (and dropping hypotheses is always sound).
func (r *Root) cone(blk int) map[int]bool {
	sliceMu.Lock()
	defer sliceMu.Unlock()
	if blk < 0 || r.fn == nil || blk >= len(r.fn.Blocks) {
		return nil
	}
	if r.cones == nil {
		r.cones = map[int]map[int]bool{}
	}
	if c, ok := r.cones[blk]; ok {
		return c
	}
	c := map[int]bool{blk: true}
	work := []int{blk}
	for len(work) > 0 {
		b := r.fn.Blocks[work[len(work)-1]]
		work = work[:len(work)-1]
		for _, p := range b.Preds {
			if !c[p.Index] {
				c[p.Index] = true
				work = append(work, p.Index)
			}
		}
	}
	r.cones[blk] = c
	return c
}

// coneAssumptions: all assume items of o's cone; second result false if the cone removes nothing.
func (r *Root) coneAssumptions(o *Obligation) (map[int]bool, bool) {
	c := r.cone(o.Blk)
	if c == nil {
		return nil, false
	}
	keep := map[int]bool{}
	dropped := 0
	for i := 0; i < o.N; i++ {
		if r.items[i].Kind != "assume" {
			continue
		}
		if b := r.items[i].Blk; b >= 0 && !c[b] {
			dropped++
			continue
		}
		keep[i] = true
	}
	return keep, dropped > 0
}

// relevantAssumptions returns the set of item indexes (assume items) kept for obligation o.
func (r *Root) relevantAssumptions(o *Obligation, depth int, tol float64) map[int]bool {
	sc := r.sliceInfo()
	cone := r.cone(o.Blk)
	freq := map[string]int{}
	for i := 0; i < o.N; i++ {
		for _, s := range sc.itemSym[i] {
			freq[s]++
		}
	}
	// trigger symbols of each assumption: its rarest symbols
	trig := make([][]string, o.N)
	for i := 0; i < o.N; i++ {
		syms := sc.itemSym[i]
		if len(syms) == 0 {
			continue
		}
		min := 1 << 30
		for _, s := range syms {
			if freq[s] < min {
				min = freq[s]
			}
		}
		for _, s := range syms {
			if float64(freq[s]) <= tol*float64(min) {
				trig[i] = append(trig[i], s)
			}
		}
	}
	// goal symbols (expanded through definitions)
	active := map[string]bool{}
	for _, s := range symbolsOf(o.Goal) {
		if d, ok := sc.defSyms[s]; ok {
			for _, x := range d {
				active[x] = true
			}
		} else {
			active[s] = true
		}
	}
	keep := map[int]bool{}
	for d := 0; d < depth; d++ {
		added := false
		for i := 0; i < o.N; i++ {
			if keep[i] || r.items[i].Kind != "assume" {
				continue
			}
			if b := r.items[i].Blk; cone != nil && b >= 0 && !cone[b] {
				continue
			}
			hit := false
			for _, s := range trig[i] {
				if active[s] {
					hit = true
					break
				}
			}
			// membership facts (has_elem_<sort> lemmas of appends/removals) can only contribute if membership of that sort is
			// already part of the problem; otherwise they only feed instantiation chains
			if hit {
				gated, open := false, false
				for _, s := range sc.itemSym[i] {
					if strings.HasPrefix(s, "has_elem_") {
						gated = true
						if active[s] {
							open = true
						}
					}
				}
				if gated && !open {
					hit = false
				}
			}
			if hit {
				keep[i] = true
				added = true
			}
		}
		if !added {
			break
		}
		for i := range keep {
			for _, s := range sc.itemSym[i] {
				active[s] = true
			}
		}
	}
	return keep
}
