package main

// Mapping of Go types to SMT sorts, datatype generation, zero values, range axioms.

import (
	"crypto/sha1"
	"fmt"
	"go/types"
	"regexp"
	"sort"
	"strings"
)

// Gen is the global generation context shared by all function encoders of one run.
type Gen struct {
	sortDecls   []string          // uninterpreted sort declarations, in order
	dtOrder     []string          // datatype sort names in declaration order
	dtDecl      map[string]string // sort name -> constructor text
	structOf    map[string]*types.Struct
	structNamed map[string]types.Type
	sliceElem   map[string]string     // slice sort -> elem sort
	sliceElemT  map[string]types.Type // slice sort -> elem go type
	mapKV       map[string][2]string  // map sort -> key, value sorts
	funDecls    []string              // declare-fun lines (uninterpreted functions)
	funSeen     map[string]bool
	axioms      []string // global axioms (assumed)
	axiomNames  []string
	strLits     map[string]string // literal -> const name
	strOrder    []string
	strNames    map[string]string // constant name -> literal
	errGlobals  map[string]int
	usedExt     map[string]bool // assumed external contracts actually used
	sortOfType  map[string]string
}

func NewGen() *Gen {
	g := &Gen{
		dtDecl: map[string]string{}, structOf: map[string]*types.Struct{}, structNamed: map[string]types.Type{},
		sliceElem: map[string]string{}, sliceElemT: map[string]types.Type{}, mapKV: map[string][2]string{},
		funSeen: map[string]bool{}, strLits: map[string]string{}, errGlobals: map[string]int{},
		usedExt: map[string]bool{}, sortOfType: map[string]string{},
	}
	for _, m := range regexp.MustCompile(`\(declare-fun ([A-Za-z_][A-Za-z0-9_!.]*) `).FindAllStringSubmatch(preludeFuns, -1) {
		g.funSeen[m[1]] = true
	}
	for _, n := range []string{"decquo", "nlmul", "nl_div", "nl_tdiv", "nl_mod", "nl_tmod", "band", "bor", "bxor", "strlen", "strcat", "strlt", "strcontains", "strhasprefix", "addrStr", "addrOf", "validAddr"} {
		g.funSeen[n] = true
	}
	return g
}

const (
	sortInt  = "Int"
	sortBool = "Bool"
	sortStr  = "Str"
	sortF32  = "(_ FloatingPoint 8 24)"
	sortF64  = "(_ FloatingPoint 11 53)"
	sortAny  = "Any"
	sortAddr = "Addr"
	sortCtx  = "Ctx"
	sortOpq  = "Opq" // opaque value we never look into (interfaces other than error/any, funcs, chans)
)

func typeFullName(t types.Type) string {
	if n, ok := t.(*types.Named); ok {
		if n.Obj().Pkg() != nil {
			return n.Obj().Pkg().Path() + "." + n.Obj().Name()
		}
		return n.Obj().Name()
	}
	return t.String()
}

// special named types with an abstract SMT representation
func specialSort(full string) (string, bool) {
	switch full {
	case "cosmossdk.io/math.Int":
		return sortInt, true
	case "github.com/cosmos/cosmos-sdk/types.Dec":
		return sortInt, true
	case "cosmossdk.io/math.Uint":
		return sortInt, true
	case "github.com/cosmos/cosmos-sdk/types.AccAddress", "github.com/cosmos/cosmos-sdk/types.ValAddress":
		return sortAddr, true
	case "github.com/cosmos/cosmos-sdk/types.Context", "context.Context":
		return sortCtx, true
	case "math/big.Int":
		return sortInt, true
	case "time.Time":
		return sortInt, true
	}
	return "", false
}

// opaqueStruct: struct types whose fields the verifier never looks into (keepers, SDK service objects).
func opaqueStruct(n *types.Named) bool {
	if n.Obj().Pkg() == nil {
		return false
	}
	p := n.Obj().Pkg().Path()
	if strings.HasPrefix(p, "github.com/SaoNetwork/sao/") {
		return strings.HasSuffix(p, "/keeper") || strings.HasSuffix(p, "/app")
	}
	switch p + "." + n.Obj().Name() {
	case "github.com/cosmos/cosmos-sdk/types.Coin", "github.com/cosmos/cosmos-sdk/types.DecCoin",
		"github.com/cosmos/cosmos-sdk/x/staking/types.Delegation", "github.com/cosmos/cosmos-sdk/x/staking/types.Validator",
		"github.com/SaoNetwork/sao-did/parser.DID":
		return false
	}
	return true
}

func pkgShort(path string) string {
	parts := strings.Split(path, "/")
	n := len(parts)
	last := parts[n-1]
	if (last == "types" || last == "keeper") && n >= 2 {
		if last == "keeper" {
			return parts[n-2] + "k"
		}
		if parts[n-2] == "cosmos-sdk" {
			return "sdk"
		}
		return parts[n-2]
	}
	return last
}

func mangle(s string) string {
	var b strings.Builder
	for _, r := range s {
		if r >= 'a' && r <= 'z' || r >= 'A' && r <= 'Z' || r >= '0' && r <= '9' || r == '_' {
			b.WriteRune(r)
		} else {
			b.WriteRune('_')
		}
	}
	return b.String()
}

func isIntKind(b *types.Basic) bool {
	return b.Info()&types.IsInteger != 0
}

// intRange returns bounds of a Go integer type as decimal strings.
func intRange(b *types.Basic) (lo, hi string) {
	switch b.Kind() {
	case types.Int, types.Int64, types.UntypedInt:
		return "(- 9223372036854775808)", "9223372036854775807"
	case types.Int32, types.UntypedRune:
		return "(- 2147483648)", "2147483647"
	case types.Int16:
		return "(- 32768)", "32767"
	case types.Int8:
		return "(- 128)", "127"
	case types.Uint, types.Uint64, types.Uintptr:
		return "0", "18446744073709551615"
	case types.Uint32:
		return "0", "4294967295"
	case types.Uint16:
		return "0", "65535"
	case types.Uint8:
		return "0", "255"
	}
	return "", ""
}

func intBits(b *types.Basic) (bits int, signed bool) {
	switch b.Kind() {
	case types.Int, types.Int64, types.UntypedInt:
		return 64, true
	case types.Int32, types.UntypedRune:
		return 32, true
	case types.Int16:
		return 16, true
	case types.Int8:
		return 8, true
	case types.Uint, types.Uint64, types.Uintptr:
		return 64, false
	case types.Uint32:
		return 32, false
	case types.Uint16:
		return 16, false
	case types.Uint8:
		return 8, false
	}
	return 0, false
}

// SortOf maps a Go type to an SMT sort name, declaring datatypes on demand.
func (g *Gen) SortOf(t types.Type) string {
	t = types.Unalias(t)
	key := t.String()
	if s, ok := g.sortOfType[key]; ok {
		return s
	}
	s := g.sortOf0(t)
	g.sortOfType[key] = s
	return s
}

func (g *Gen) sortOf0(t types.Type) string {
	if n, ok := t.(*types.Named); ok {
		full := typeFullName(n)
		if s, ok := specialSort(full); ok {
			return s
		}
		if full == "error" {
			return sortInt
		}
		switch u := n.Underlying().(type) {
		case *types.Struct:
			if opaqueStruct(n) {
				return sortOpq
			}
			name := pkgShort(n.Obj().Pkg().Path()) + "_" + n.Obj().Name()
			if ex, ok := g.structNamed[name]; ok && typeFullName(ex) != full {
				name = mangle(full)
			}
			if _, ok := g.dtDecl[name]; ok {
				return name
			}
			g.structNamed[name] = n
			g.declStruct(name, u)
			return name
		case *types.Interface:
			return sortOpq
		default:
			return g.SortOf(u)
		}
	}
	switch u := t.(type) {
	case *types.Basic:
		switch {
		case u.Info()&types.IsBoolean != 0:
			return sortBool
		case isIntKind(u):
			return sortInt
		case u.Info()&types.IsString != 0:
			return sortStr
		case u.Kind() == types.Float32:
			return sortF32
		case u.Kind() == types.Float64, u.Kind() == types.UntypedFloat:
			return sortF64
		case u.Kind() == types.UnsafePointer:
			return sortOpq
		case u.Kind() == types.UntypedNil:
			return sortInt
		}
	case *types.Pointer:
		return sortInt // Ref
	case *types.Slice:
		return g.sliceSort(u.Elem())
	case *types.Array:
		return g.sliceSort(u.Elem()) // fixed arrays are represented like slices (value semantics)
	case *types.Struct:
		name := "anon_" + mangle(u.String())
		if len(name) > 60 {
			name = fmt.Sprintf("anon_%d", len(g.dtOrder))
		}
		if _, ok := g.dtDecl[name]; !ok {
			g.declStruct(name, u)
		}
		return name
	case *types.Interface:
		if u.NumMethods() == 0 {
			return sortAny
		}
		if types.Identical(u, types.Universe.Lookup("error").Type().Underlying()) {
			return sortInt
		}
		return sortOpq
	case *types.Map:
		return g.mapSort(u.Key(), u.Elem())
	case *types.Signature, *types.Chan:
		return sortOpq
	case *types.Tuple:
		return sortOpq
	}
	return sortOpq
}

func (g *Gen) sliceSort(elem types.Type) string {
	es := g.SortOf(elem)
	name := "Slice_" + mangle(es)
	if _, ok := g.dtDecl[name]; ok {
		return name
	}
	g.sliceElem[name] = es
	g.sliceElemT[name] = elem
	g.dtDecl[name] = fmt.Sprintf("((mk_%s (%s_arr (Array Int %s)) (%s_len Int) (%s_nil Bool)))", name, name, es, name, name)
	g.dtOrder = append(g.dtOrder, name)
	return name
}

func (g *Gen) mapSort(k, v types.Type) string {
	ks, vs := g.SortOf(k), g.SortOf(v)
	name := "Map_" + mangle(ks) + "_" + mangle(vs)
	if _, ok := g.dtDecl[name]; ok {
		return name
	}
	g.mapKV[name] = [2]string{ks, vs}
	g.dtDecl[name] = fmt.Sprintf("((mk_%s (%s_val (Array %s %s)) (%s_dom (Array %s Bool)) (%s_nil Bool)))", name, name, ks, vs, name, ks, name)
	g.dtOrder = append(g.dtOrder, name)
	return name
}

func (g *Gen) declStruct(name string, u *types.Struct) {
	g.dtDecl[name] = "" // reserve (recursive types only through pointers, which are Int)
	g.structOf[name] = u
	var fs []string
	for i := 0; i < u.NumFields(); i++ {
		f := u.Field(i)
		fs = append(fs, fmt.Sprintf("(%s_%s %s)", name, f.Name(), g.SortOf(f.Type())))
	}
	if len(fs) == 0 {
		fs = append(fs, fmt.Sprintf("(%s__unit Bool)", name))
	}
	g.dtDecl[name] = fmt.Sprintf("((mk_%s %s))", name, strings.Join(fs, " "))
	g.dtOrder = append(g.dtOrder, name)
}

// fieldIndex / field info of a struct sort
func (g *Gen) structFields(sortName string) *types.Struct { return g.structOf[sortName] }

func (g *Gen) FieldSel(sortName string, st *types.Struct, i int, term string) string {
	return fmt.Sprintf("(%s_%s %s)", sortName, st.Field(i).Name(), term)
}

// FieldUpd returns term with field i replaced by val.
func (g *Gen) FieldUpd(sortName string, st *types.Struct, i int, term, val string) string {
	var b strings.Builder
	b.WriteString("(mk_" + sortName)
	for j := 0; j < st.NumFields(); j++ {
		b.WriteString(" ")
		if j == i {
			b.WriteString(val)
		} else {
			b.WriteString(g.FieldSel(sortName, st, j, term))
		}
	}
	b.WriteString(")")
	return b.String()
}

// Zero value term for a Go type.
func (g *Gen) Zero(t types.Type) string {
	t = types.Unalias(t)
	s := g.SortOf(t)
	return g.zeroOfSort(s, t)
}

func (g *Gen) zeroOfSort(s string, t types.Type) string {
	switch s {
	case sortInt:
		return "0"
	case sortBool:
		return "false"
	case sortStr:
		return g.StrLit("")
	case sortF32:
		return "((_ to_fp 8 24) RNE 0.0)"
	case sortF64:
		return "((_ to_fp 11 53) RNE 0.0)"
	case sortAny:
		return "any_nil"
	case sortAddr:
		return "addr_nil"
	case sortCtx:
		return "ctx0"
	case sortOpq:
		return "0"
	}
	if st, ok := g.structOf[s]; ok {
		var b strings.Builder
		b.WriteString("(mk_" + s)
		if st.NumFields() == 0 {
			b.WriteString(" true")
		}
		for i := 0; i < st.NumFields(); i++ {
			b.WriteString(" " + g.Zero(st.Field(i).Type()))
		}
		b.WriteString(")")
		return b.String()
	}
	if es, ok := g.sliceElem[s]; ok {
		if t != nil {
			if at, ok := t.Underlying().(*types.Array); ok {
				return fmt.Sprintf("(mk_%s %s %d false)", s, g.ConstArray(es, g.Zero(at.Elem())), at.Len())
			}
		}
		return g.NilSlice(s)
	}
	if kv, ok := g.mapKV[s]; ok {
		g.DeclFun(s+"_val0", nil, fmt.Sprintf("(Array %s %s)", kv[0], kv[1]))
		return fmt.Sprintf("(mk_%s %s_val0 ((as const (Array %s Bool)) false) true)", s, s, kv[0])
	}
	return "0"
}

// ConstArray: an array holding zero everywhere. cvc5 accepts (as const ...) only for value arguments, so non-value
// zeros (records containing uninterpreted string constants) get a declared array with a defining axiom.
func (g *Gen) ConstArray(es, zero string) string {
	if es == "Int" || es == "Bool" {
		return fmt.Sprintf("((as const (Array Int %s)) %s)", es, zero)
	}
	name := "zarr_" + mangle(es)
	g.DeclFun(name, nil, fmt.Sprintf("(Array Int %s)", es))
	g.Axiom("zeroarray."+es, fmt.Sprintf("(forall ((i!z Int)) (! (= (select %s i!z) %s) :pattern ((select %s i!z))))", name, zero, name))
	return name
}

func (g *Gen) NilSlice(s string) string {
	es := g.sliceElem[s]
	g.DeclFun(fmt.Sprintf("%s_arr0", s), nil, fmt.Sprintf("(Array Int %s)", es))
	return fmt.Sprintf("(mk_%s %s_arr0 0 true)", s, s)
}

func (g *Gen) EmptySlice(s string) string {
	es := g.sliceElem[s]
	g.DeclFun(fmt.Sprintf("%s_arr0", s), nil, fmt.Sprintf("(Array Int %s)", es))
	return fmt.Sprintf("(mk_%s %s_arr0 0 false)", s, s)
}

func (g *Gen) DeclFun(name string, args []string, ret string) {
	if g.funSeen[name] {
		return
	}
	g.funSeen[name] = true
	g.funDecls = append(g.funDecls, fmt.Sprintf("(declare-fun %s (%s) %s)", name, strings.Join(args, " "), ret))
}

func (g *Gen) Axiom(name, f string) {
	for _, n := range g.axiomNames {
		if n == name {
			return
		}
	}
	g.axiomNames = append(g.axiomNames, name)
	g.axioms = append(g.axioms, f)
}

func (g *Gen) StrLit(s string) string {
	if c, ok := g.strLits[s]; ok {
		return c
	}
	// the constant is named after its content, not after the order of first use, so that an obligation's text does not
	// depend on what else the process verified before
	h := sha1.Sum([]byte(s))
	c := fmt.Sprintf("str!%x", h[:6])
	if g.strNames == nil {
		g.strNames = map[string]string{}
	}
	g.strNames[c] = s
	g.strLits[s] = c
	g.strOrder = append(g.strOrder, s)
	return c
}

// Preamble emits all sort, datatype, function declarations and global axioms.
func (g *Gen) Preamble(stripQ bool) string { return g.PreambleFor(stripQ, "") }

// PreambleFor emits declarations and those global axioms whose function symbols occur in body (all of them if body is empty).
var identRe = regexp.MustCompile(`[A-Za-z_][A-Za-z0-9_!.]*`)

func identSet(text string, into map[string]bool) {
	for _, m := range identRe.FindAllString(text, -1) {
		into[m] = true
	}
}

// PreambleFor builds the declarations for one query. It is canonical: it contains only what the query (body) reaches -
// the axioms relevant to it, the uninterpreted functions, string literals and datatypes those mention, closed transitively -
// in a fixed (sorted) order. The same obligation therefore gets the same text whatever else was verified in the process.
func (g *Gen) PreambleFor(stripQ bool, body string) string {
	// 1. relevant global axioms (prelude ones are handled below)
	type ax struct{ name, text string }
	var axs []ax
	for i, a := range g.axioms {
		if stripQ && (strings.Contains(a, "(forall ") || strings.Contains(a, "(exists ")) {
			continue
		}
		if body != "" && strings.Contains(a, "(forall ") && !g.axiomRelevant(a, body) {
			continue
		}
		if body != "" && !strings.Contains(a, "(forall ") && !strings.Contains(a, "(exists ") {
			// a ground fact matters only if the query mentions every uninterpreted symbol it is about
			ids := map[string]bool{}
			identSet(a, ids)
			rel := true
			for id := range ids {
				if g.funSeen[id] && !strings.Contains(body, id) {
					rel = false
					break
				}
			}
			if !rel {
				continue
			}
		}
		axs = append(axs, ax{g.axiomNames[i], a})
	}
	sort.Slice(axs, func(i, j int) bool { return axs[i].name < axs[j].name })
	var prelude []string
	for _, l := range strings.Split(preludeFuns, "\n") {
		if strings.Contains(l, "(forall ") {
			if stripQ {
				continue
			}
			if body != "" && !g.axiomRelevant(l, body) {
				continue
			}
		}
		prelude = append(prelude, l)
	}
	// 2. identifiers reachable from the query
	used := map[string]bool{}
	identSet(body, used)
	for _, a := range axs {
		identSet(a.text, used)
	}
	for _, l := range prelude {
		if strings.HasPrefix(l, "(assert") {
			identSet(l, used)
		}
	}
	funName := func(decl string) string {
		t := strings.TrimPrefix(decl, "(declare-fun ")
		if i := strings.IndexByte(t, ' '); i > 0 {
			return t[:i]
		}
		return t
	}
	incFun := map[string]bool{}
	incDt := map[string]bool{}
	if body == "" {
		for _, d := range g.funDecls {
			incFun[d] = true
		}
		for _, n := range g.dtOrder {
			incDt[n] = true
		}
	}
	dtMentions := func(n string) bool {
		if used[n] || used["mk_"+n] {
			return true
		}
		// an accessor or tester of the datatype
		for id := range used {
			if strings.HasPrefix(id, n+"_") {
				return true
			}
		}
		return false
	}
	for changed := true; changed; {
		changed = false
		for _, d := range g.funDecls {
			if !incFun[d] && used[funName(d)] {
				incFun[d] = true
				identSet(d, used)
				changed = true
			}
		}
		for _, n := range g.dtOrder {
			if !incDt[n] && dtMentions(n) {
				incDt[n] = true
				identSet(g.dtDecl[n], used)
				changed = true
			}
		}
	}
	var b strings.Builder
	b.WriteString("(declare-sort Str 0)\n(declare-sort Addr 0)\n(declare-sort Ctx 0)\n(define-sort Opq () Int)\n")
	b.WriteString("(declare-datatypes ((Any 0)) (((any_nil) (any_str (any_s Str)) (any_int (any_i Int)) (any_bool (any_b Bool)) (any_addr (any_a Addr)) (any_other (any_o Int)))))\n")
	b.WriteString("(declare-const addr_nil Addr)\n(declare-const ctx0 Ctx)\n")
	var dts []string
	for n := range incDt {
		dts = append(dts, n)
	}
	sort.Strings(dts)
	if len(dts) > 0 {
		var names, decls []string
		for _, n := range dts {
			names = append(names, fmt.Sprintf("(%s 0)", n))
			decls = append(decls, g.dtDecl[n])
		}
		b.WriteString("(declare-datatypes (" + strings.Join(names, " ") + ") (" + strings.Join(decls, "\n ") + "))\n")
	}
	var strs []string
	for c := range g.strNames {
		if body == "" || used[c] {
			strs = append(strs, c)
		}
	}
	sort.Strings(strs)
	for _, c := range strs {
		fmt.Fprintf(&b, "(declare-const %s Str)\n", c)
	}
	if len(strs) > 1 {
		b.WriteString("(assert (distinct " + strings.Join(strs, " ") + "))\n")
	}
	for _, l := range prelude {
		b.WriteString(l + "\n")
	}
	for _, c := range strs {
		fmt.Fprintf(&b, "(assert (= (strlen %s) %d))\n", c, len(g.strNames[c]))
	}
	var fds []string
	for d := range incFun {
		fds = append(fds, d)
	}
	sort.Strings(fds)
	for _, d := range fds {
		b.WriteString(d + "\n")
	}
	for _, a := range axs {
		fmt.Fprintf(&b, "; axiom %s\n(assert %s)\n", a.name, a.text)
	}
	return b.String()
}

const preludeFuns = `
(declare-fun strlen (Str) Int)
(assert (forall ((s Str)) (! (and (>= (strlen s) 0) (<= (strlen s) 4611686018427387904)) :pattern ((strlen s)))))
(declare-fun strcat (Str Str) Str)
(assert (forall ((a Str) (b Str)) (! (= (strlen (strcat a b)) (+ (strlen a) (strlen b))) :pattern ((strcat a b)))))
(declare-fun strlt (Str Str) Bool)
(declare-fun strcontains (Str Str) Bool)
(declare-fun strhasprefix (Str Str) Bool)
(define-fun wrap_i64 ((x Int)) Int (- (mod (+ x 9223372036854775808) 18446744073709551616) 9223372036854775808))
(define-fun wrap_i32 ((x Int)) Int (- (mod (+ x 2147483648) 4294967296) 2147483648))
(define-fun wrap_i16 ((x Int)) Int (- (mod (+ x 32768) 65536) 32768))
(define-fun wrap_i8 ((x Int)) Int (- (mod (+ x 128) 256) 128))
(define-fun wrap_u64 ((x Int)) Int (mod x 18446744073709551616))
(define-fun wrap_u32 ((x Int)) Int (mod x 4294967296))
(define-fun wrap_u16 ((x Int)) Int (mod x 65536))
(define-fun wrap_u8 ((x Int)) Int (mod x 256))
(define-fun add_i64 ((a Int) (b Int)) Int (let ((s (+ a b))) (ite (> s 9223372036854775807) (- s 18446744073709551616) (ite (< s (- 9223372036854775808)) (+ s 18446744073709551616) s))))
(define-fun sub_i64 ((a Int) (b Int)) Int (let ((s (- a b))) (ite (> s 9223372036854775807) (- s 18446744073709551616) (ite (< s (- 9223372036854775808)) (+ s 18446744073709551616) s))))
(define-fun add_u64 ((a Int) (b Int)) Int (let ((s (+ a b))) (ite (> s 18446744073709551615) (- s 18446744073709551616) s)))
(define-fun sub_u64 ((a Int) (b Int)) Int (let ((s (- a b))) (ite (< s 0) (+ s 18446744073709551616) s)))
(define-fun tdiv ((a Int) (b Int)) Int (ite (>= a 0) (ite (> b 0) (div a b) (- (div a (- b)))) (ite (> b 0) (- (div (- a) b)) (div (- a) (- b)))))
(define-fun tmod ((a Int) (b Int)) Int (- a (* b (tdiv a b))))
(define-fun imax ((a Int) (b Int)) Int (ite (>= a b) a b))
(define-fun imin ((a Int) (b Int)) Int (ite (<= a b) a b))
(declare-fun nlmul (Int Int) Int)
(assert (forall ((a Int) (b Int)) (! (= (nlmul a b) (nlmul b a)) :pattern ((nlmul a b)))))
(assert (forall ((a Int) (b Int)) (! (=> (and (>= a 0) (>= b 0)) (>= (nlmul a b) 0)) :pattern ((nlmul a b)))))
(assert (forall ((a Int) (b Int)) (! (=> (and (> a 0) (> b 0)) (and (>= (nlmul a b) a) (>= (nlmul a b) b))) :pattern ((nlmul a b)))))
(assert (forall ((a Int)) (! (= (nlmul a 0) 0) :pattern ((nlmul a 0)))))
(assert (forall ((a Int)) (! (= (nlmul 0 a) 0) :pattern ((nlmul 0 a)))))
(assert (forall ((a Int)) (! (= (nlmul a 1) a) :pattern ((nlmul a 1)))))
(assert (forall ((a Int)) (! (= (nlmul 1 a) a) :pattern ((nlmul 1 a)))))
(declare-fun decquo (Int Int) Int)
(declare-fun nl_div (Int Int) Int)
(declare-fun nl_tdiv (Int Int) Int)
(declare-fun nl_mod (Int Int) Int)
(declare-fun nl_tmod (Int Int) Int)
(assert (forall ((a Int) (b Int)) (! (=> (and (>= a 0) (> b 0)) (and (>= (nl_div a b) 0) (<= (nl_div a b) a) (= (nl_tdiv a b) (nl_div a b)))) :pattern ((nl_div a b)))))
(assert (forall ((a Int) (b Int)) (! (=> (and (>= a 0) (> b 0)) (and (>= (nl_tdiv a b) 0) (<= (nl_tdiv a b) a) (= (nl_tdiv a b) (nl_div a b)))) :pattern ((nl_tdiv a b)))))
(assert (forall ((a Int) (b Int)) (! (and (=> (> b 0) (and (>= (nl_mod a b) 0) (< (nl_mod a b) b))) (=> (< b 0) (and (>= (nl_mod a b) 0) (< (nl_mod a b) (- b))))) :pattern ((nl_mod a b)))))
(assert (forall ((a Int) (b Int)) (! (=> (and (>= a 0) (> b 0)) (and (>= (nl_tmod a b) 0) (< (nl_tmod a b) b))) :pattern ((nl_tmod a b)))))
(assert (forall ((a Int) (b Int)) (! (=> (and (>= a 1) (>= b 2)) (< (nl_div a b) a)) :pattern ((nl_div a b)))))
(assert (forall ((a Int)) (! (= (nl_div a 1) a) :pattern ((nl_div a 1)))))
(assert (forall ((a Int)) (! (= (nl_tdiv a 1) a) :pattern ((nl_tdiv a 1)))))
(declare-fun band (Int Int) Int)
(declare-fun bor (Int Int) Int)
(declare-fun bxor (Int Int) Int)
(assert (forall ((a Int) (b Int)) (! (= (band a b) (band b a)) :pattern ((band a b)))))
(assert (forall ((a Int) (b Int)) (! (=> (and (>= a 0) (>= b 0)) (and (>= (band a b) 0) (<= (band a b) a) (<= (band a b) b))) :pattern ((band a b)))))
(assert (forall ((a Int)) (! (= (band a a) a) :pattern ((band a a)))))
(assert (forall ((a Int)) (! (= (band a 0) 0) :pattern ((band a 0)))))
(assert (forall ((a Int) (b Int)) (! (=> (and (>= a 0) (>= b 0)) (and (>= (bor a b) a) (>= (bor a b) b))) :pattern ((bor a b)))))
(declare-fun addrStr (Addr) Str)
(declare-fun addrOf (Str) Addr)
(declare-fun validAddr (Str) Bool)
(assert (forall ((a Addr)) (! (and (= (addrOf (addrStr a)) a)) :pattern ((addrStr a)))))
(assert (forall ((a Addr)) (! (=> (not (= a addr_nil)) (validAddr (addrStr a))) :pattern ((addrStr a)))))
(assert (forall ((s Str)) (! (=> (validAddr s) (and (= (addrStr (addrOf s)) s) (not (= (addrOf s) addr_nil)))) :pattern ((addrOf s)))))
(declare-const H Int)
(assert (>= H 0))
(assert (<= H 9223372036854775807))
(declare-const AllocBase Int)
(assert (> AllocBase 0))
`

func sortedKeys[V any](m map[string]V) []string {
	var ks []string
	for k := range m {
		ks = append(ks, k)
	}
	sort.Strings(ks)
	return ks
}

var numeralRe = regexp.MustCompile(`^(\d+|\(- \d+\))$`)

// mulTerm: products with a numeral stay linear; genuinely nonlinear products go through the uninterpreted nlmul with
// sound axioms (commutativity, sign, zero/one), so that equalities between identical products are proved by congruence
// and the solvers never enter incomplete nonlinear arithmetic. (Abstraction: sound for proofs; models are candidates.)
func mulTerm(a, b string) string {
	if numeralRe.MatchString(a) || numeralRe.MatchString(b) {
		return fmt.Sprintf("(* %s %s)", a, b)
	}
	return fmt.Sprintf("(nlmul %s %s)", a, b)
}

// divTerm: division/modulus by a numeral stays in linear arithmetic; a symbolic divisor goes through uninterpreted
// nl_<op> with sound axioms (same idea as mulTerm).
func divTerm(op, a, b string) string {
	if numeralRe.MatchString(b) && b != "0" {
		return fmt.Sprintf("(%s %s %s)", op, a, b)
	}
	return fmt.Sprintf("(nl_%s %s %s)", op, a, b)
}

// litOf: the Go string literal a term denotes, if it is a literal constant.
func (g *Gen) litOf(term string) (string, bool) {
	if v, ok := g.strNames[term]; ok {
		return v, true
	}
	return "", false
}

var axiomSymRe = regexp.MustCompile(`\(([A-Za-z_][A-Za-z0-9_!.]*) `)

var builtinOps = map[string]bool{"assert": true, "forall": true, "exists": true, "and": true, "or": true, "not": true, "ite": true, "select": true, "store": true,
	"div": true, "mod": true, "let": true, "as": true, "_": true, "fp.geq": true, "fp.leq": true, "fp.isNaN": true, "fp.isInfinite": true, "to_real": true}

// axiomRelevant: a quantified global axiom is needed only if every uninterpreted function it constrains in its pattern
// occurs in the query body (an axiom about a function the query never mentions cannot contribute to a refutation except
// through inconsistency of the axioms themselves, which the vacuity checks look for separately).
func (g *Gen) axiomRelevant(ax, body string) bool {
	pi := strings.Index(ax, ":pattern")
	src := ax
	if pi >= 0 {
		src = ax[pi:]
	}
	any := false
	for _, m := range axiomSymRe.FindAllStringSubmatch(src, -1) {
		f := m[1]
		if builtinOps[f] || !g.funSeen[f] {
			continue
		}
		any = true
		if !strings.Contains(body, "("+f+" ") {
			return false
		}
	}
	if any || pi < 0 {
		return any || pi < 0
	}
	// the pattern mentions only built-in/datatype symbols: decide on the declared functions of the whole axiom
	for _, m := range axiomSymRe.FindAllStringSubmatch(ax, -1) {
		f := m[1]
		if builtinOps[f] || !g.funSeen[f] {
			continue
		}
		if strings.Contains(body, "("+f+" ") {
			return true
		}
	}
	return false
}

// HasElem declares the membership predicate of a slice sort with its defining axioms:
//
//	(A1) every element at an index below len is a member; (A2) a member has a witness index (Skolem function).
func (g *Gen) HasElem(s string) string {
	es := g.sliceElem[s]
	fn := "has_elem_" + mangle(s)
	if g.funSeen[fn] {
		return fn
	}
	g.DeclFun(fn, []string{s, es}, "Bool")
	g.DeclFun(fn+"_idx", []string{s, es}, "Int")
	g.Axiom("has_elem.intro."+s, fmt.Sprintf("(forall ((s %s) (i Int)) (! (=> (and (<= 0 i) (< i (%s_len s))) (%s s (select (%s_arr s) i))) :pattern ((select (%s_arr s) i))))", s, s, fn, s, s))
	g.Axiom("has_elem.elim."+s, fmt.Sprintf("(forall ((s %s) (v %s)) (! (=> (%s s v) (and (<= 0 (%s_idx s v)) (< (%s_idx s v) (%s_len s)) (= (select (%s_arr s) (%s_idx s v)) v))) :pattern ((%s s v))))", s, es, fn, fn, fn, s, s, fn, fn))
	return fn
}
